package main

import (
	"fmt"

	"verifsim/simdisk"
	"verifsim/simrt"
)

// C08, thorough tier: real inode exhaustion. Every inode number is used,
// all objects are removed, and every number is used again; handles of the
// first generation must all be stale, handles of the second all new.
func exhaustRun(spec *Spec, res *Result) *Violation {
	d := simdisk.New(60000)
	d.NoTrace = true // no crash images are taken from this run; the trace would cost gigabytes
	var viol *Violation
	fail := func(sig, detail string) {
		if viol == nil {
			viol = &Violation{Property: spec.Property, Kind: "handles", Sig: sig, Detail: "inode exhaustion: " + detail}
		}
		simrt.Fail("violation", detail)
	}
	sim := simrt.Run(simConfig(spec.Sched, 400_000_000), func() {
		rig := startServer(d, spec.knob("unstable", 1) != 0, 0, 257)
		root := rootHandle()
		ninode := int(rig.Srv.VerifFsState().Super.NInode())
		old := map[string]int{}
		var names []string
		var handles []string
		for i := 0; i < ninode+10; i++ {
			name := fmt.Sprintf("x%d", i)
			c := rig.Call(&In{K: "create", Obj: root, Name: name, How: 1})
			if c.Status != 0 {
				break
			}
			if j, dup := old[c.H]; dup {
				fail("exhaust:dup-handle", fmt.Sprintf("file %d got the handle of file %d", i, j))
			}
			old[c.H] = i
			names = append(names, name)
			handles = append(handles, c.H)
		}
		if len(names) < ninode-2 {
			fail("exhaust:too-few", fmt.Sprintf("only %d of %d inodes could be used", len(names), ninode-2))
		}
		res.count("exhaust_files", int64(len(names)))
		for i := 0; i < len(handles); i += 997 {
			if g := rig.Call(&In{K: "getattr", Obj: handles[i]}); g.Status != 0 {
				fail("exhaust:live-handle", fmt.Sprintf("handle of live file %d fails with status %d", i, g.Status))
			}
		}
		for _, n := range names {
			if r := rig.Call(&In{K: "remove", Obj: root, Name: n}); r.Status != 0 {
				fail("exhaust:remove", fmt.Sprintf("remove of %s failed with status %d", n, r.Status))
			}
		}
		if spec.Seed%2 == 0 {
			rig.Shutdown()
			rig = startServer(d, rig.Unstable, 0, 257)
		}
		// second generation: every number is handed out again
		n2 := 0
		for i := 0; i < len(names); i++ {
			c := rig.Call(&In{K: "create", Obj: root, Name: fmt.Sprintf("y%d", i), How: 1})
			if c.Status != 0 {
				fail("exhaust:not-reclaimed", fmt.Sprintf("after removing everything only %d of %d files could be created again (status %d)", i, len(names), c.Status))
			}
			if j, dup := old[c.H]; dup {
				fail("exhaust:handle-reused", fmt.Sprintf("new file y%d received the handle that removed file x%d had", i, j))
			}
			n2++
		}
		// every first-generation handle is stale in every procedure (sampled)
		for i := 0; i < len(handles); i += 499 {
			h := handles[i]
			for _, in := range []*In{{K: "getattr", Obj: h}, {K: "read", Obj: h, Count: 10}, {K: "write", Obj: h, Count: 1, Data: []byte("z"), How: 2},
				{K: "setattr", Obj: h, SetSz: true, Size: 5}, {K: "commit", Obj: h}, {K: "access", Obj: h}, {K: "lookup", Obj: h, Name: "a"},
				{K: "rename", Obj: root, Name: "y0", Obj2: h, Name2: "q"}} {
				out := rig.Call(in)
				if out.Status != stSTALE && out.Status != stBADHANDLE {
					fail("exhaust:stale-accepted", fmt.Sprintf("%s with the handle of removed file x%d (inode number reused) returned status %d, not stale", in.K, i, out.Status))
				}
				res.count("dead_handle_uses", 1)
			}
		}
		simrt.Quiesce()
		info, err := fsck(rig, 255)
		if err != nil {
			fail("exhaust:fsck:"+err.(*fsckErr).clause, err.Error())
		}
		if err := conservation(info); err != nil {
			fail("exhaust:conservation", err.Error())
		}
	})
	res.Fingerprint = sim.Fingerprint
	res.SchedPrint = sim.SchedPrint
	res.Steps = sim.Stats.Steps
	res.SimNanos = sim.Stats.SimNanos
	if viol != nil {
		return viol
	}
	return outcomeViolation(spec.Property, sim.Outcome, "inode exhaustion run")
}
