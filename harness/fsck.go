package main

// F (structural fsck) and A (conservation) — evaluated inside the simulation
// on a live server, reading the *logical* disk through a journal operation
// (home blocks overlaid with the log, exactly what the server itself sees)
// and decoding with the repository's own decoders.

import (
	"fmt"
	"sort"

	"github.com/mit-pdos/go-journal/common"
	"github.com/mit-pdos/go-journal/jrnl"
	"github.com/mit-pdos/go-nfsd/dir"
	"github.com/mit-pdos/go-nfsd/inode"
	"github.com/mit-pdos/go-nfsd/nfstypes"

	"verifsim/simrt"
)

type fsckInfo struct {
	InodesInUse    int
	BlocksOwned    int
	HalfFreed      int // free inodes that still hold blocks (freeing in progress)
	HalfFreedBlks  int
	HalfFreedWhat  string   // the first such inode, for reports
	HalfFreedInos  []uint64 // free inodes that hold blocks
	LiveShrinking  []uint64 // inodes in use whose shrink mark is above their size (a truncation was interrupted)
	Dirs, Files    int
	BitmapUsedBlks int // data-region blocks marked in the bitmap
	BitmapUsedIno  int
	AllocFreeBlks  uint64
	AllocFreeIno   uint64
	BitmapFreeBlks uint64 // zero bits over the whole bitmap (comparable with the allocator's NumFree)
	BitmapFreeIno  uint64
	RootBlocks     int
	IndirectSeen   bool
	DindirectSeen  bool
}

type fsckErr struct {
	clause string
	msg    string
}

func (e *fsckErr) Error() string { return e.clause + ": " + e.msg }

func ferr(clause, format string, a ...interface{}) error {
	return &fsckErr{clause, fmt.Sprintf(format, a...)}
}

func allZero(b []byte) bool {
	for _, c := range b {
		if c != 0 {
			return false
		}
	}
	return true
}

// fsck checks the clauses of C04 on the server's logical disk. nameMax is the
// announced name_max.
func fsck(r *Rig, nameMax uint64) (info *fsckInfo, err error) {
	defer func() {
		if p := recover(); p != nil {
			if simrt.IsKill(p) {
				panic(p)
			}
			// decoding garbage can make the repository's decoders panic:
			// that is a malformed structure, reported as such
			err = ferr("decode", "the repository's decoder panicked on on-disk data: %v", p)
		}
	}()
	st := r.Srv.VerifFsState()
	sup := st.Super
	op := jrnl.Begin(st.Txn)
	info = &fsckInfo{}
	dataStart := uint64(sup.DataStart())
	maxB := uint64(sup.MaxBnum())
	blkBuf := func(bn uint64) []byte {
		return op.ReadBuf(sup.Block2addr(bn), common.NBITBLOCK).Data
	}
	// bitmaps
	var bbm []byte
	for i := uint64(0); i < sup.NBlockBitmap; i++ {
		bbm = append(bbm, blkBuf(uint64(sup.BitmapBlockStart())+i)...)
	}
	var ibm []byte
	for i := uint64(0); i < sup.NInodeBitmap; i++ {
		ibm = append(ibm, blkBuf(uint64(sup.BitmapInodeStart())+i)...)
	}
	bit := func(bm []byte, n uint64) bool { return bm[n/8]&(1<<(n%8)) != 0 }
	for n := uint64(0); n < uint64(len(bbm))*8; n++ {
		if !bit(bbm, n) {
			info.BitmapFreeBlks++
		} else if n >= dataStart && n < maxB {
			info.BitmapUsedBlks++
		}
	}
	for n := uint64(0); n < uint64(len(ibm))*8; n++ {
		if !bit(ibm, n) {
			info.BitmapFreeIno++
		} else {
			info.BitmapUsedIno++
		}
	}
	info.AllocFreeBlks = st.Balloc.NumFree()
	info.AllocFreeIno = st.Ialloc.NumFree()
	// static marking: everything outside the data region is marked, inodes 0 and 1 are marked
	for n := uint64(0); n < dataStart; n++ {
		if !bit(bbm, n) {
			return info, ferr("bitmap", "non-data block %d is not marked in use", n)
		}
	}
	for n := maxB; n < uint64(len(bbm))*8; n++ {
		if !bit(bbm, n) {
			return info, ferr("bitmap", "block number %d beyond the end of the disk (%d) is marked free", n, maxB)
		}
	}
	if !bit(ibm, 0) || !bit(ibm, 1) {
		return info, ferr("bitmap", "reserved inodes 0/1 are not marked in use")
	}

	// inodes
	ninode := uint64(sup.NInode())
	inodes := map[uint64]*inode.Inode{}
	perBlk := common.INODEBLK
	for base := uint64(0); base < ninode; base += perBlk {
		a := sup.Inum2Addr(base)
		if allZero(blkBuf(a.Blkno)) {
			continue
		}
		for i := base; i < base+perBlk && i < ninode; i++ {
			if i == 0 {
				continue
			}
			ip := inode.Decode(op.ReadBuf(sup.Inum2Addr(i), common.INODESZ*8), i)
			if ip.Kind != inode.NF3FREE || ip.IsShrinking() || anyNonZero(ip.VerifBlks()) {
				inodes[i] = ip
			}
		}
	}
	inums := make([]uint64, 0, len(inodes))
	for i := range inodes {
		inums = append(inums, i)
	}
	sort.Slice(inums, func(a, b int) bool { return inums[a] < inums[b] })
	// "every inode in use is marked in use and vice versa": a number that is marked
	// in the bitmap must belong to an inode that is in use (inodes that are free,
	// hold nothing and are not being freed were not collected above)
	for n := uint64(2); n < ninode && n < uint64(len(ibm))*8; n++ {
		if bit(ibm, n) {
			if _, ok := inodes[n]; !ok {
				return info, ferr("inode-bitmap", "inode %d is free but marked in use in the inode bitmap", n)
			}
		}
	}

	owner := map[uint64]uint64{}
	own := func(bn, ino uint64, what string) error {
		if bn < dataStart || bn >= maxB {
			return ferr("pointer", "inode %d: %s pointer %d outside the data region [%d,%d)", ino, what, bn, dataStart, maxB)
		}
		if prev, ok := owner[bn]; ok {
			return ferr("double-owner", "block %d belongs to inode %d and to inode %d (%s)", bn, prev, ino, what)
		}
		owner[bn] = ino
		if !bit(bbm, bn) {
			return ferr("unmarked-block", "block %d is used by inode %d (%s) but marked free in the block bitmap", bn, ino, what)
		}
		return nil
	}
	// blockOf[ino][logical index] = physical block
	blockOf := map[uint64]map[uint64]uint64{}
	for _, ino := range inums {
		ip := inodes[ino]
		inUse := ip.Kind != inode.NF3FREE
		if inUse != bit(ibm, ino) {
			if inUse {
				return info, ferr("inode-bitmap", "inode %d is in use (kind %d) but marked free in the inode bitmap", ino, ip.Kind)
			}
			return info, ferr("inode-bitmap", "inode %d is free but marked in use in the inode bitmap", ino)
		}
		if inUse {
			info.InodesInUse++
		}
		blks := ip.VerifBlks()
		if uint64(len(blks)) != inode.NBLKINO {
			return info, ferr("decode", "inode %d has %d block pointers", ino, len(blks))
		}
		lim := (ip.Size + 4095) / 4096
		if ip.ShrinkSize > lim {
			lim = ip.ShrinkSize
		}
		bm := map[uint64]uint64{}
		blockOf[ino] = bm
		cnt := 0
		put := func(idx, bn uint64, what string) error {
			if bn == 0 {
				return nil
			}
			if err := own(bn, ino, what); err != nil {
				return err
			}
			cnt++
			if idx != ^uint64(0) {
				if idx >= lim {
					return ferr("size", "inode %d (size %d, shrink size %d) has a block at index %d, beyond its size", ino, ip.Size, ip.ShrinkSize, idx)
				}
				bm[idx] = bn
			}
			return nil
		}
		for i := uint64(0); i < inode.NDIRECT; i++ {
			if err := put(i, blks[i], "direct"); err != nil {
				return info, err
			}
		}
		if ib := blks[inode.INDIRECT]; ib != 0 {
			info.IndirectSeen = true
			if err := put(^uint64(0), ib, "indirect index"); err != nil {
				return info, err
			}
			b := op.ReadBuf(sup.Block2addr(ib), common.NBITBLOCK)
			for j := uint64(0); j < inode.NBLKBLK; j++ {
				if err := put(inode.NDIRECT+j, b.BnumGet(j*8), "indirect"); err != nil {
					return info, err
				}
			}
		}
		if db := blks[inode.DINDIRECT]; db != 0 {
			info.DindirectSeen = true
			if err := put(^uint64(0), db, "double-indirect index"); err != nil {
				return info, err
			}
			b := op.ReadBuf(sup.Block2addr(db), common.NBITBLOCK)
			for j := uint64(0); j < inode.NBLKBLK; j++ {
				l1 := b.BnumGet(j * 8)
				if l1 == 0 {
					continue
				}
				if err := put(^uint64(0), l1, "second-level index"); err != nil {
					return info, err
				}
				b2 := op.ReadBuf(sup.Block2addr(l1), common.NBITBLOCK)
				for k := uint64(0); k < inode.NBLKBLK; k++ {
					if err := put(inode.NDIRECT+inode.NBLKBLK+j*inode.NBLKBLK+k, b2.BnumGet(k*8), "double-indirect"); err != nil {
						return info, err
					}
				}
			}
		}
		info.BlocksOwned += cnt
		if inUse && ip.IsShrinking() {
			info.LiveShrinking = append(info.LiveShrinking, ino)
		}
		if !inUse && cnt > 0 {
			info.HalfFreedInos = append(info.HalfFreedInos, ino)
			info.HalfFreed++
			info.HalfFreedBlks += cnt
			if info.HalfFreedWhat == "" {
				var idx []uint64
				for i := range bm {
					idx = append(idx, i)
				}
				sort.Slice(idx, func(a, b int) bool { return idx[a] < idx[b] })
				if len(idx) > 12 {
					idx = idx[:12]
				}
				info.HalfFreedWhat = fmt.Sprintf("inode %d: size %d, shrink mark %d, %d blocks incl. index blocks, data blocks at file indices %v", ino, ip.Size, ip.ShrinkSize, cnt, idx)
			}
		}
		if ino == common.ROOTINUM {
			info.RootBlocks = cnt
		}
	}
	// every marked data block has an owner (no leak) — this is clause "every
	// block in use is marked in use" read in the other direction for C05; it
	// is reported under its own clause name
	if info.BitmapUsedBlks != len(owner) {
		for n := dataStart; n < maxB; n++ {
			if bit(bbm, n) {
				if _, ok := owner[n]; !ok {
					return info, ferr("leaked-block", "block %d is marked in use but no inode (live or half-freed) owns it; %d marked vs %d owned", n, info.BitmapUsedBlks, len(owner))
				}
			}
		}
	}

	// directory tree
	root := inodes[common.ROOTINUM]
	if root == nil || root.Kind != nfstypes.NF3DIR {
		return info, ferr("tree", "the root inode is not a directory")
	}
	reached := map[uint64]string{}
	type item struct {
		ino, parent uint64
		path        string
	}
	queue := []item{{common.ROOTINUM, common.ROOTINUM, "/"}}
	reached[common.ROOTINUM] = "/"
	for len(queue) > 0 {
		it := queue[0]
		queue = queue[1:]
		dip := inodes[it.ino]
		info.Dirs++
		if dip.Size%dir.DIRENTSZ != 0 {
			return info, ferr("dir-size", "directory %s (inode %d) has size %d, not a multiple of the entry size", it.path, it.ino, dip.Size)
		}
		names := map[string]bool{}
		sawDot, sawDotDot := false, false
		for off := uint64(0); off < dip.Size; off += dir.DIRENTSZ {
			bn, ok := blockOf[it.ino][off/4096]
			var raw []byte
			if ok {
				raw = blkBuf(bn)[off%4096 : off%4096+dir.DIRENTSZ]
			} else {
				raw = make([]byte, dir.DIRENTSZ) // hole: zero entry = free slot
			}
			cino, name := dir.VerifDecodeDirEnt(raw)
			if cino == common.NULLINUM {
				continue
			}
			if names[name] {
				return info, ferr("dup-name", "directory %s has two entries named %q", it.path, name)
			}
			names[name] = true
			switch name {
			case ".":
				sawDot = true
				if cino != it.ino {
					return info, ferr("dot", "'.' of %s (inode %d) points to inode %d", it.path, it.ino, cino)
				}
				continue
			case "..":
				sawDotDot = true
				if cino != it.parent {
					return info, ferr("dotdot", "'..' of %s (inode %d) points to inode %d, its parent is inode %d", it.path, it.ino, cino, it.parent)
				}
				continue
			}
			if name == "" || uint64(len(name)) > nameMax {
				return info, ferr("name", "directory %s has an entry with an ill-formed name (%d bytes) for inode %d", it.path, len(name), cino)
			}
			// (names containing '/' or NUL: RFC 1813 leaves refusing them to the
			// server, so storing one is not reported; see DESIGN.md section 4)
			child := inodes[cino]
			cpath := it.path + name
			if child == nil || child.Kind == inode.NF3FREE {
				return info, ferr("dangling", "entry %s points to inode %d which is free", cpath, cino)
			}
			if prev, ok := reached[cino]; ok {
				return info, ferr("two-names", "inode %d is reachable as %s and as %s", cino, prev, cpath)
			}
			reached[cino] = cpath
			if child.Kind == nfstypes.NF3DIR {
				queue = append(queue, item{cino, it.ino, cpath + "/"})
			} else {
				info.Files++
			}
		}
		if !sawDot || !sawDotDot {
			return info, ferr("dot", "directory %s (inode %d) lacks '.' or '..'", it.path, it.ino)
		}
	}
	for _, ino := range inums {
		ip := inodes[ino]
		if ip.Kind != inode.NF3FREE {
			if _, ok := reached[ino]; !ok {
				return info, ferr("orphan", "inode %d (kind %d, size %d) is in use but has no name in the tree", ino, ip.Kind, ip.Size)
			}
		}
	}
	return info, nil
}

func anyNonZero(b []common.Bnum) bool {
	for _, x := range b {
		if x != 0 {
			return true
		}
	}
	return false
}

// conservation (A): at a quiescent point the allocators agree with the
// bitmaps on the logical disk.
func conservation(info *fsckInfo) error {
	if info.AllocFreeBlks != info.BitmapFreeBlks {
		return ferr("alloc-blocks", "the in-memory block allocator has %d free, the on-disk bitmap %d", info.AllocFreeBlks, info.BitmapFreeBlks)
	}
	if info.AllocFreeIno != info.BitmapFreeIno {
		return ferr("alloc-inodes", "the in-memory inode allocator has %d free, the on-disk bitmap %d", info.AllocFreeIno, info.BitmapFreeIno)
	}
	return nil
}
