package main

import (
	"fmt"

	"github.com/mit-pdos/go-journal/lockmap"
	"github.com/mit-pdos/go-nfsd/fh"
	"github.com/mit-pdos/go-nfsd/fstxn"
	"github.com/mit-pdos/go-nfsd/nfs"
	"github.com/mit-pdos/go-nfsd/nfstypes"

	"verifsim/simdisk"
	"verifsim/simrt"
)

// Rig is one server incarnation on a simulated disk.
type Rig struct {
	D        *simdisk.Disk
	Srv      *nfs.Nfs
	Group    int
	Unstable bool
	Calls    int
	Conn     *Conn // non-nil: requests go through the XDR/RPC transport
}

var nextGroup = 100

// startServer formats or recovers the disk and starts a server incarnation
// whose goroutines form their own task group.
func startServer(d *simdisk.Disk, unstable bool, icache int64, nshard int64) *Rig {
	nextGroup++
	r := &Rig{D: d, Group: nextGroup, Unstable: unstable}
	if icache > 0 {
		fstxn.VerifSetICACHESZ(uint64(icache))
	} else {
		fstxn.VerifSetICACHESZ(100)
	}
	if nshard > 0 {
		lockmap.VerifSetNSHARD(uint64(nshard))
	} else {
		lockmap.VerifSetNSHARD(65537)
	}
	killed := simrt.Scope(r.Group, func() {
		r.Srv = nfs.MakeNfs(d)
		r.Srv.Unstable = unstable
	})
	if killed {
		return nil
	}
	return r
}

func (r *Rig) Shutdown() {
	simrt.Scope(r.Group, func() { r.Srv.ShutdownNfs() })
}

func rootHandle() string { return string(fh.MkRootFh3().Data) }

func fh3(h string) nfstypes.Nfs_fh3 { return nfstypes.Nfs_fh3{Data: []byte(h)} }

func attrOf(a nfstypes.Fattr3) *Attr {
	return &Attr{Type: uint32(a.Ftype), Size: uint64(a.Size), FileID: uint64(a.Fileid)}
}

func postAttr(a nfstypes.Post_op_attr) *Attr {
	if !a.Attributes_follow {
		return nil
	}
	return attrOf(a.Attributes)
}

func sattr(in *In) nfstypes.Sattr3 {
	var s nfstypes.Sattr3
	if in.SetSz {
		s.Size = nfstypes.Set_size3{Set_it: true, Size: nfstypes.Size3(in.Size)}
	}
	if in.K == "setattr" && in.How&4 != 0 {
		// mode, uid and gid, which this server accepts and ignores
		s.Mode = nfstypes.Set_mode3{Set_it: true, Mode: 0o640}
		s.Uid = nfstypes.Set_uid3{Set_it: true, Uid: 1000}
		s.Gid = nfstypes.Set_gid3{Set_it: true, Gid: 1000}
	}
	if in.SetTm || in.SetMt {
		s.Mtime = nfstypes.Set_mtime{Set_it: nfstypes.SET_TO_SERVER_TIME}
	}
	if in.SetTm || in.SetAt {
		s.Atime = nfstypes.Set_atime{Set_it: nfstypes.SET_TO_CLIENT_TIME, Atime: nfstypes.Nfstime3{Seconds: 77, Nseconds: 5}}
	}
	return s
}

// Call performs one RPC by calling the handler directly (the RPC loop and the
// XDR codec are exercised by the transport mode).
func (r *Rig) Call(in *In) *Out {
	if r.Conn != nil {
		return r.Conn.CallRPC(in)
	}
	out := &Out{}
	killed := simrt.Scope(r.Group, func() { r.call(in, out) })
	if killed {
		return &Out{Crashed: true}
	}
	return out
}

func (r *Rig) call(in *In, out *Out) {
	s := r.Srv
	switch in.K {
	case "null":
		s.NFSPROC3_NULL()
	case "getattr":
		rep := s.NFSPROC3_GETATTR(nfstypes.GETATTR3args{Object: fh3(in.Obj)})
		out.Status = uint32(rep.Status)
		if rep.Status == 0 {
			out.Attr = attrOf(rep.Resok.Obj_attributes)
		}
	case "setattr":
		args := nfstypes.SETATTR3args{Object: fh3(in.Obj), New_attributes: sattr(in)}
		if in.How&3 == 1 {
			args.Guard = nfstypes.Sattrguard3{Check: true, Obj_ctime: nfstypes.Nfstime3{Seconds: 77, Nseconds: 5}}
		} else if in.How&3 == 2 {
			args.Guard = nfstypes.Sattrguard3{Check: true}
		}
		rep := s.NFSPROC3_SETATTR(args)
		out.Status = uint32(rep.Status)
		if rep.Status == 0 {
			out.Attr = postAttr(rep.Resok.Obj_wcc.After)
		}
	case "lookup":
		rep := s.NFSPROC3_LOOKUP(nfstypes.LOOKUP3args{What: nfstypes.Diropargs3{Dir: fh3(in.Obj), Name: nfstypes.Filename3(in.Name)}})
		out.Status = uint32(rep.Status)
		if rep.Status == 0 {
			out.H = string(rep.Resok.Object.Data)
			out.HasH = true
			out.Attr = postAttr(rep.Resok.Obj_attributes)
		}
	case "access":
		rep := s.NFSPROC3_ACCESS(nfstypes.ACCESS3args{Object: fh3(in.Obj), Access: 0x3f})
		out.Status = uint32(rep.Status)
		if rep.Status == 0 {
			out.Attr = postAttr(rep.Resok.Obj_attributes)
		}
	case "readlink":
		rep := s.NFSPROC3_READLINK(nfstypes.READLINK3args{Symlink: fh3(in.Obj)})
		out.Status = uint32(rep.Status)
		out.Data = []byte(rep.Resok.Data)
	case "read":
		rep := s.NFSPROC3_READ(nfstypes.READ3args{File: fh3(in.Obj), Offset: nfstypes.Offset3(in.Off), Count: nfstypes.Count3(in.Count)})
		out.Status = uint32(rep.Status)
		out.Data = rep.Resok.Data
		out.Count = uint64(rep.Resok.Count)
		out.Eof = rep.Resok.Eof
	case "write":
		data := make([]byte, len(in.Data))
		copy(data, in.Data)
		rep := s.NFSPROC3_WRITE(nfstypes.WRITE3args{File: fh3(in.Obj), Offset: nfstypes.Offset3(in.Off), Count: nfstypes.Count3(in.Count),
			Stable: nfstypes.Stable_how(in.How), Data: data})
		out.Status = uint32(rep.Status)
		if rep.Status == 0 {
			out.Count = uint64(rep.Resok.Count)
			out.Commit = int(rep.Resok.Committed)
			out.Verf = string(rep.Resok.Verf[:])
			out.Attr = postAttr(rep.Resok.File_wcc.After)
		}
	case "create":
		rep := s.NFSPROC3_CREATE(nfstypes.CREATE3args{Where: nfstypes.Diropargs3{Dir: fh3(in.Obj), Name: nfstypes.Filename3(in.Name)},
			How: nfstypes.Createhow3{Mode: nfstypes.Createmode3(in.How)}})
		out.Status = uint32(rep.Status)
		if rep.Status == 0 {
			out.HasH = rep.Resok.Obj.Handle_follows
			out.H = string(rep.Resok.Obj.Handle.Data)
			out.Attr = postAttr(rep.Resok.Obj_attributes)
		}
	case "mkdir":
		rep := s.NFSPROC3_MKDIR(nfstypes.MKDIR3args{Where: nfstypes.Diropargs3{Dir: fh3(in.Obj), Name: nfstypes.Filename3(in.Name)}})
		out.Status = uint32(rep.Status)
		if rep.Status == 0 {
			out.HasH = rep.Resok.Obj.Handle_follows
			out.H = string(rep.Resok.Obj.Handle.Data)
			out.Attr = postAttr(rep.Resok.Obj_attributes)
		}
	case "symlink":
		rep := s.NFSPROC3_SYMLINK(nfstypes.SYMLINK3args{Where: nfstypes.Diropargs3{Dir: fh3(in.Obj), Name: nfstypes.Filename3(in.Name)},
			Symlink: nfstypes.Symlinkdata3{Symlink_data: nfstypes.Nfspath3(string(in.Data))}})
		out.Status = uint32(rep.Status)
		if rep.Status == 0 {
			out.HasH = rep.Resok.Obj.Handle_follows
			out.H = string(rep.Resok.Obj.Handle.Data)
			out.Attr = postAttr(rep.Resok.Obj_attributes)
		}
	case "mknod":
		rep := s.NFSPROC3_MKNOD(nfstypes.MKNOD3args{Where: nfstypes.Diropargs3{Dir: fh3(in.Obj), Name: nfstypes.Filename3(in.Name)},
			What: nfstypes.Mknoddata3{Ftype: nfstypes.NF3FIFO}})
		out.Status = uint32(rep.Status)
	case "remove":
		rep := s.NFSPROC3_REMOVE(nfstypes.REMOVE3args{Object: nfstypes.Diropargs3{Dir: fh3(in.Obj), Name: nfstypes.Filename3(in.Name)}})
		out.Status = uint32(rep.Status)
	case "rmdir":
		rep := s.NFSPROC3_RMDIR(nfstypes.RMDIR3args{Object: nfstypes.Diropargs3{Dir: fh3(in.Obj), Name: nfstypes.Filename3(in.Name)}})
		out.Status = uint32(rep.Status)
	case "rename":
		rep := s.NFSPROC3_RENAME(nfstypes.RENAME3args{
			From: nfstypes.Diropargs3{Dir: fh3(in.Obj), Name: nfstypes.Filename3(in.Name)},
			To:   nfstypes.Diropargs3{Dir: fh3(in.Obj2), Name: nfstypes.Filename3(in.Name2)}})
		out.Status = uint32(rep.Status)
	case "link":
		rep := s.NFSPROC3_LINK(nfstypes.LINK3args{File: fh3(in.Obj), Link: nfstypes.Diropargs3{Dir: fh3(in.Obj2), Name: nfstypes.Filename3(in.Name)}})
		out.Status = uint32(rep.Status)
	case "readdir":
		rep := s.NFSPROC3_READDIR(nfstypes.READDIR3args{Dir: fh3(in.Obj), Cookie: nfstypes.Cookie3(in.Cookie), Count: nfstypes.Count3(in.Count)})
		out.Status = uint32(rep.Status)
		if rep.Status == 0 {
			for e := rep.Resok.Reply.Entries; e != nil; e = e.Nextentry {
				out.Ents = append(out.Ents, DirEnt{Name: string(e.Name), FileID: uint64(e.Fileid), Cookie: uint64(e.Cookie)})
			}
			out.Eof = rep.Resok.Reply.Eof
		}
	case "readdirplus":
		rep := s.NFSPROC3_READDIRPLUS(nfstypes.READDIRPLUS3args{Dir: fh3(in.Obj), Cookie: nfstypes.Cookie3(in.Cookie),
			Dircount: nfstypes.Count3(in.Dircnt), Maxcount: nfstypes.Count3(in.Maxcnt)})
		out.Status = uint32(rep.Status)
		if rep.Status == 0 {
			for e := rep.Resok.Reply.Entries; e != nil; e = e.Nextentry {
				de := DirEnt{Name: string(e.Name), FileID: uint64(e.Fileid), Cookie: uint64(e.Cookie)}
				if e.Name_handle.Handle_follows {
					de.HasH = true
					de.H = string(e.Name_handle.Handle.Data)
				}
				de.Attr = postAttr(e.Name_attributes)
				out.Ents = append(out.Ents, de)
			}
			out.Eof = rep.Resok.Reply.Eof
		}
	case "fsstat":
		rep := s.NFSPROC3_FSSTAT(nfstypes.FSSTAT3args{Fsroot: fh3(in.Obj)})
		out.Status = uint32(rep.Status)
	case "fsinfo":
		rep := s.NFSPROC3_FSINFO(nfstypes.FSINFO3args{Fsroot: fh3(in.Obj)})
		out.Status = uint32(rep.Status)
		out.Lim.MaxFileSize = uint64(rep.Resok.Maxfilesize)
		out.Lim.WtMax = uint64(rep.Resok.Wtmax)
		out.Lim.RtMax = uint64(rep.Resok.Rtmax)
	case "pathconf":
		rep := s.NFSPROC3_PATHCONF(nfstypes.PATHCONF3args{Object: fh3(in.Obj)})
		out.Status = uint32(rep.Status)
		out.Lim.NameMax = uint64(rep.Resok.Name_max)
	case "commit":
		rep := s.NFSPROC3_COMMIT(nfstypes.COMMIT3args{File: fh3(in.Obj), Offset: nfstypes.Offset3(in.Off), Count: nfstypes.Count3(in.Count)})
		out.Status = uint32(rep.Status)
		if rep.Status == 0 {
			out.Verf = string(rep.Resok.Verf[:])
		}
	default:
		panic(fmt.Sprintf("rig: unknown op %q", in.K))
	}
}
