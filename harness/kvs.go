package main

import (
	"encoding/binary"
	"fmt"
	"sort"
	"strings"
	"time"

	"github.com/anishathalye/porcupine"
	"github.com/mit-pdos/go-journal/common"
	"github.com/mit-pdos/go-nfsd/kvs"

	"verifsim/simdisk"
	"verifsim/simrt"
)

// C18: KVS multi-put is atomic, durable and read-your-writes.
//
// Oracle: linearizability (porcupine) of the concurrent history against a map
// model in which a MultiPut is one atomic step; for every crash point of the
// disk trace, the recovered state must be the result of a linearization in
// which every returned operation took effect and every operation in flight at
// the crash took effect entirely or not at all; recovery itself is crashed
// again (nested) and must reach the same state.

type kvsEngine struct{}

func init() { register("kvs", kvsEngine{}, "C18") }

const garbageVal = ^uint64(0)

func kvsValue(id uint64) []byte {
	b := make([]byte, 4096)
	if id == 0 {
		return b // the initial contents of every key
	}
	binary.LittleEndian.PutUint64(b, id)
	for i := 8; i < 4096; i++ {
		b[i] = patByte(id, uint64(i))
	}
	return b
}

func kvsDecode(b []byte) uint64 {
	if len(b) != 4096 {
		return garbageVal
	}
	id := binary.LittleEndian.Uint64(b)
	if id == 0 {
		for _, c := range b {
			if c != 0 {
				return garbageVal
			}
		}
		return 0
	}
	for i := 8; i < 4096; i++ {
		if b[i] != patByte(id, uint64(i)) {
			return garbageVal
		}
	}
	return id
}

func (kvsEngine) Gen(prop string, seed uint64, tier string) *Spec {
	rng := simrt.Stream(seed, "workload")
	nkeys := 2 + rng.Intn(5)
	ncl := 1 + rng.Intn(4)
	big := rng.Chance(0.015)
	if big {
		// "1..many keys": multi-puts with more pairs than one journal transaction can hold
		nkeys = 513 + rng.Intn(12)
		ncl = 1 + rng.Intn(2)
	}
	maxops := 8
	if tier == "thorough" {
		maxops = 10
	}
	sz := uint64(common.LOGSIZE) + uint64(nkeys)
	spec := &Spec{Property: prop, Engine: "kvs", Seed: seed, Tier: tier,
		Sched: genSched(simrt.Stream(seed, "schedcfg"), seed, ncl > 1),
		Disk:  sz + uint64(rng.Intn(3)) + 1,
		Knobs: map[string]int64{"sz": int64(sz), "subsets": 2},
	}
	if tier == "thorough" {
		spec.Knobs["subsets"] = 8
	}
	val := uint64(1)
	earlier := map[uint64][]uint64{}
	if big {
		spec.Knobs["big"] = 1
	}
	for c := 0; c < ncl; c++ {
		n := 3 + rng.Intn(maxops-2)
		if ncl == 1 {
			n += 4
		}
		if big {
			n = 2 + rng.Intn(2)
		}
		var ops []Op
		for i := 0; i < n; i++ {
			if big && rng.Chance(0.7) {
				// a run of distinct keys around the capacity of the log (511 blocks)
				np := []int{300, 510, 511, 512, 512, 513, 520, nkeys}[rng.Intn(8)]
				if np > nkeys {
					np = nkeys
				}
				op := Op{K: "put"}
				start := rng.Intn(nkeys - np + 1)
				for j := 0; j < np; j++ {
					op.Keys = append(op.Keys, uint64(common.LOGSIZE)+uint64(start+j))
					op.Vals = append(op.Vals, uint64(c+1)<<32|val)
					val++
				}
				ops = append(ops, op)
				continue
			}
			if rng.Chance(0.6) {
				np := 1 + rng.Intn(4)
				if rng.Chance(0.15) {
					np = 1 + rng.Intn(8)
				}
				op := Op{K: "put"}
				for j := 0; j < np; j++ {
					// boundary keys get extra weight
					k := uint64(common.LOGSIZE) + uint64(rng.Intn(nkeys))
					if rng.Chance(0.2) {
						k = uint64(common.LOGSIZE)
					} else if rng.Chance(0.2) {
						k = sz - 1
					}
					op.Keys = append(op.Keys, k)
					if rng.Chance(0.25) {
						// a value this key held (or may hold) before, the initial zero block
						// included: a put that changes nothing for this key
						h := earlier[k]
						if len(h) == 0 {
							op.Vals = append(op.Vals, 0)
						} else {
							op.Vals = append(op.Vals, append([]uint64{0}, h...)[rng.Intn(len(h)+1)])
						}
						continue
					}
					op.Vals = append(op.Vals, uint64(c+1)<<32|val)
					earlier[k] = append(earlier[k], uint64(c+1)<<32|val)
					val++
				}
				if rng.Chance(0.03) {
					// a key just outside the valid range [LOGSIZE, sz): the whole request must be refused
					bad := []uint64{uint64(common.LOGSIZE) - 1, uint64(common.LOGSIZE) - 2, sz, sz + 1, 0, 1}[rng.Intn(6)]
					op.Keys[rng.Intn(len(op.Keys))] = bad
					op.X = 1
				}
				ops = append(ops, op)
			} else {
				k := uint64(common.LOGSIZE) + uint64(rng.Intn(nkeys))
				if rng.Chance(0.03) {
					k = []uint64{uint64(common.LOGSIZE) - 1, uint64(common.LOGSIZE) - 2, sz + 1, 0}[rng.Intn(4)]
					ops = append(ops, Op{K: "get", Keys: []uint64{k}, X: 1})
					continue
				}
				ops = append(ops, Op{K: "get", Keys: []uint64{k}})
			}
		}
		spec.Clients = append(spec.Clients, ops)
	}
	return spec
}

type kvsIn struct {
	Put     bool
	Keys    []uint64
	Vals    []uint64
	ReadAll bool
	Pending bool // in flight at the crash: may or may not have happened
}

type kvsOut struct {
	Val     uint64
	All     []uint64
	Refused bool // MultiPut returned false: nothing may have been installed
}

type kvsState string // canonical "k=v;" rendering, keys sorted

func kvsStateOf(m map[uint64]uint64) kvsState {
	ks := make([]uint64, 0, len(m))
	for k := range m {
		ks = append(ks, k)
	}
	sort.Slice(ks, func(i, j int) bool { return ks[i] < ks[j] })
	var b strings.Builder
	for _, k := range ks {
		if m[k] != 0 {
			fmt.Fprintf(&b, "%d=%d;", k, m[k])
		}
	}
	return kvsState(b.String())
}

func (s kvsState) toMap() map[uint64]uint64 {
	m := map[uint64]uint64{}
	for _, kv := range strings.Split(string(s), ";") {
		if kv == "" {
			continue
		}
		var k, v uint64
		fmt.Sscanf(kv, "%d=%d", &k, &v)
		m[k] = v
	}
	return m
}

func kvsModel(lo, n uint64) porcupine.Model {
	nm := porcupine.NondeterministicModel{
		Init: func() []interface{} { return []interface{}{kvsState("")} },
		Step: func(state, input, output interface{}) []interface{} {
			st := state.(kvsState)
			in := input.(kvsIn)
			out := output.(kvsOut)
			switch {
			case in.ReadAll:
				m := st.toMap()
				for i := uint64(0); i < n; i++ {
					if m[lo+i] != out.All[i] {
						return nil
					}
				}
				return []interface{}{st}
			case in.Put:
				if out.Refused && !in.Pending {
					return []interface{}{st} // refused: none of its pairs installed
				}
				m := st.toMap()
				for i, k := range in.Keys {
					m[k] = in.Vals[i]
				}
				if in.Pending {
					return []interface{}{st, kvsStateOf(m)}
				}
				return []interface{}{kvsStateOf(m)}
			default:
				if in.Pending {
					return []interface{}{st}
				}
				if st.toMap()[in.Keys[0]] != out.Val {
					return nil
				}
				return []interface{}{st}
			}
		},
		Equal: func(a, b interface{}) bool { return a.(kvsState) == b.(kvsState) },
		DescribeOperation: func(input, output interface{}) string {
			return fmt.Sprintf("%+v -> %+v", input, output)
		},
	}
	return nm.ToModel()
}

// kvsRefuses runs f and reports whether it was refused with the store's
// out-of-bounds panic (any other panic is passed on).
func kvsRefuses(f func()) (refused bool) {
	defer func() {
		if r := recover(); r != nil {
			if err, ok := r.(error); ok && strings.Contains(err.Error(), "out-of-bounds") {
				refused = true
				return
			}
			panic(r)
		}
	}()
	f()
	return false
}

type kvsRec struct {
	client    int
	in        kvsIn
	out       kvsOut
	call, ret int64
	markID    int
	done      bool
}

func (kvsEngine) Exec(spec *Spec) *Result {
	res := &Result{}
	sz := uint64(spec.knob("sz", 0))
	lo := uint64(common.LOGSIZE)
	nkeys := sz - lo
	d := simdisk.New(spec.Disk)
	var recs []*kvsRec
	var evseq int64
	var final []uint64
	sim := simrt.Run(simConfig(spec.Sched, 3_000_000), func() {
		var kv *kvs.KVS
		simrt.Scope(1, func() { kv = kvs.MkKVS(d, sz) })
		var wg simrt.WaitGroup
		for c, ops := range spec.Clients {
			c, ops := c, ops
			wg.Add(1)
			simrt.Go(fmt.Sprintf("client%d", c), func() {
				defer wg.Done()
				for i, op := range ops {
					r := &kvsRec{client: c, markID: len(recs)}
					recs = append(recs, r)
					simrt.SetTag(fmt.Sprintf("client %d op %d %s %v", c, i, op.K, op.Keys))
					evseq++
					r.call = evseq
					d.Mark(r.markID, 0)
					if op.K == "put" {
						r.in = kvsIn{Put: true, Keys: op.Keys, Vals: op.Vals}
						var pairs []kvs.KVPair
						for j, k := range op.Keys {
							pairs = append(pairs, kvs.KVPair{Key: k, Val: kvsValue(op.Vals[j])})
						}
						if op.X != 0 {
							// one of the keys lies outside the valid range: the store must refuse
							// the whole request (it panics with an out-of-bounds error)
							if !kvsRefuses(func() { kv.MultiPut(pairs) }) {
								simrt.Fail("violation", fmt.Sprintf("MultiPut accepted keys %v although the valid range is [%d,%d)", op.Keys, lo, sz))
							}
							r.out.Refused = true
						} else {
							ok := kv.MultiPut(pairs)
							if !ok {
								r.out.Refused = true
							}
						}
					} else if op.X != 0 {
						r.in = kvsIn{Put: true} // an empty, refused request as far as the model goes
						r.out.Refused = true
						if !kvsRefuses(func() { kv.Get(op.Keys[0]) }) {
							simrt.Fail("violation", fmt.Sprintf("Get accepted key %d although the valid range is [%d,%d)", op.Keys[0], lo, sz))
						}
					} else {
						r.in = kvsIn{Keys: op.Keys}
						p, ok := kv.Get(op.Keys[0])
						if !ok || p == nil {
							simrt.Fail("model-mismatch", "Get failed")
						}
						r.out.Val = kvsDecode(p.Val)
					}
					d.Mark(r.markID, 1)
					evseq++
					r.ret = evseq
					r.done = true
					simrt.SetTag("")
				}
			})
		}
		wg.Wait()
		for i := uint64(0); i < nkeys; i++ {
			p, _ := kv.Get(lo + i)
			final = append(final, kvsDecode(p.Val))
		}
		simrt.Quiesce()
	})
	res.Fingerprint = sim.Fingerprint
	res.SchedPrint = sim.SchedPrint
	res.Steps = sim.Stats.Steps
	res.SimNanos = sim.Stats.SimNanos
	res.count("switches", int64(sim.Stats.Switches))
	if sim.Stats.ChanOps > 0 {
		res.count("chan_ops", int64(sim.Stats.ChanOps))
		res.count("chan_blocks", int64(sim.Stats.ChanBlock))
	}
	res.count("cond_waits", int64(sim.Stats.CondWait))
	res.count("mutex_blocks", int64(sim.Stats.MutexBlock))
	if v := outcomeViolation(spec.Property, sim.Outcome, "main run"); v != nil {
		res.Viol = v
		return res
	}
	res.Nontrivial = len(recs) >= 2 && sim.Stats.Choices > 0
	model := kvsModel(lo, nkeys)

	// 1. linearizability of the crash-free history (with the final read-back)
	var hist []porcupine.Operation
	for _, r := range recs {
		hist = append(hist, porcupine.Operation{ClientId: r.client, Input: r.in, Output: r.out, Call: r.call, Return: r.ret})
		if r.out.Val == garbageVal {
			res.Viol = &Violation{Property: spec.Property, Kind: "garbage", Sig: "kvs-get-garbage", Detail: fmt.Sprintf("Get(%v) returned a block that no put ever wrote", r.in.Keys)}
			return res
		}
	}
	hist = append(hist, porcupine.Operation{ClientId: len(spec.Clients), Input: kvsIn{ReadAll: true}, Output: kvsOut{All: final}, Call: evseq + 1, Return: evseq + 2})
	switch porcupine.CheckOperationsTimeout(model, hist, 20*time.Second) {
	case porcupine.Illegal:
		res.Viol = &Violation{Property: spec.Property, Kind: "linearizability", Sig: "kvs-not-linearizable",
			Detail: "history is not linearizable: " + kvsHistString(recs, final)}
		return res
	case porcupine.Unknown:
		res.Inconcl++
	}
	res.count("histories_checked", 1)

	// 2. every crash point of the trace
	if spec.knob("nocrash", 0) != 0 {
		return res
	}
	invokeAt := map[int]int{}
	returnAt := map[int]int{}
	for i, ev := range d.Trace {
		if ev.Kind == simdisk.EvMark {
			if ev.B == 0 {
				invokeAt[ev.A] = i
			} else {
				returnAt[ev.A] = i
			}
		}
	}
	var cst crashStats
	crng := simrt.Stream(spec.Seed, "crash")
	maxImg := 400
	if spec.Tier == "thorough" {
		maxImg = 2000
	}
	if spec.knob("big", 0) != 0 {
		maxImg = 40 // every read-back touches several hundred keys
	}
	v := enumerateCrashes(d.Base, d.Trace, spec.Crash, crng, int(spec.knob("subsets", 2)), maxImg, &cst, func(cp *CrashPoint) *Violation {
		vec, tr2, base2, v := kvsRecover(spec, cp.Img, sz, false)
		if v != nil {
			v.Detail = fmt.Sprintf("crash at event %d (%s %s): %s", cp.Event, cp.Mode, cp.Mask, v.Detail)
			return v
		}
		res.StateHashes = append(res.StateHashes, cp.Img.Hash())
		var h []porcupine.Operation
		const crashT = int64(1) << 40
		for _, r := range recs {
			inv, okI := invokeAt[r.markID]
			ret, okR := returnAt[r.markID]
			if !okI || inv >= cp.Event {
				continue // not yet issued at the crash
			}
			if !r.in.Put {
				// A get may legitimately have observed a put that was committed
				// in memory but not yet durable (the put had not returned); the
				// property promises durability only for puts that returned. So
				// gets constrain the crash-free history only, not the crash state.
				continue
			}
			if okR && ret < cp.Event {
				h = append(h, porcupine.Operation{ClientId: r.client, Input: r.in, Output: r.out, Call: r.call, Return: r.ret})
			} else {
				in := r.in
				in.Pending = true
				h = append(h, porcupine.Operation{ClientId: r.client, Input: in, Output: kvsOut{}, Call: r.call, Return: crashT})
			}
		}
		h = append(h, porcupine.Operation{ClientId: len(spec.Clients), Input: kvsIn{ReadAll: true}, Output: kvsOut{All: vec}, Call: crashT + 1, Return: crashT + 2})
		switch porcupine.CheckOperationsTimeout(model, h, 20*time.Second) {
		case porcupine.Illegal:
			return &Violation{Property: spec.Property, Kind: "crash-state", Sig: "kvs-crash-state",
				Detail: fmt.Sprintf("crash at event %d (%s %s, %d un-barriered writes): recovered state %v is not explained by the operations acknowledged or in flight: %s",
					cp.Event, cp.Mode, cp.Mask, cp.Open, vec, kvsHistString(recs, nil))}
		case porcupine.Unknown:
			res.Inconcl++
		}
		// nested: crash recovery itself, at every point, and recover again
		if len(tr2) > 0 && (spec.Crash == nil || spec.Crash.Next != nil) {
			var cst2 crashStats
			var only *CrashSel
			if spec.Crash != nil {
				only = spec.Crash.Next
			}
			nmax := 40
			if spec.knob("big", 0) != 0 {
				nmax = 3
			}
			v := enumerateCrashes(base2, tr2, only, crng, 1, nmax, &cst2, func(cp2 *CrashPoint) *Violation {
				vec2, _, _, v := kvsRecover(spec, cp2.Img, sz, true)
				if v != nil {
					return v
				}
				for i := range vec {
					if vec[i] != vec2[i] {
						return &Violation{Property: spec.Property, Kind: "crash-state", Sig: "kvs-recovery-not-idempotent",
							Detail: fmt.Sprintf("crash at event %d, then a second crash at recovery event %d (%s %s): state %v became %v", cp.Event, cp2.Event, cp2.Mode, cp2.Mask, vec, vec2)}
					}
				}
				return nil
			})
			res.count("nested_images", int64(cst2.Images))
			if v != nil {
				return v
			}
		}
		return nil
	})
	res.count("crash_points", int64(cst.Points))
	res.count("crash_images", int64(cst.Images))
	res.count("crash_subset_images", int64(cst.Subsets))
	res.count("disk_writes", int64(cst.Writes))
	res.count("disk_barriers", int64(cst.Barriers))
	if v != nil {
		v.Property = spec.Property
		res.Viol = v
	}
	return res
}

// kvsRecover starts a KVS on the image, reads every key, lets the installer
// finish, and (unless bare) runs a put/get continuation.
func kvsRecover(spec *Spec, img *simdisk.Image, sz uint64, bare bool) ([]uint64, []simdisk.Ev, *simdisk.Image, *Violation) {
	lo := uint64(common.LOGSIZE)
	d := simdisk.FromImage(img)
	var vec []uint64
	var cont *Violation
	var trace []simdisk.Ev
	sc := spec.Sched
	sc.Seed ^= img.Hash()
	sim := simrt.Run(simConfig(sc, 1_000_000), func() {
		var kv *kvs.KVS
		simrt.Scope(1, func() { kv = kvs.MkKVS(d, sz) })
		simrt.SetTag("read-back after recovery")
		for k := lo; k < sz; k++ {
			p, ok := kv.Get(k)
			if !ok {
				simrt.Fail("model-mismatch", "Get failed after recovery")
			}
			vec = append(vec, kvsDecode(p.Val))
		}
		simrt.Quiesce()
		trace = append(trace, d.Trace...)
		if bare {
			return
		}
		// the recovered store keeps working
		simrt.SetTag("continuation after recovery")
		id := uint64(0xC0FFEE)
		kv.MultiPut([]kvs.KVPair{{Key: lo, Val: kvsValue(id)}, {Key: sz - 1, Val: kvsValue(id + 1)}})
		p1, _ := kv.Get(lo)
		p2, _ := kv.Get(sz - 1)
		w1, w2 := id, id+1
		if lo == sz-1 {
			w1 = id + 1
		}
		if kvsDecode(p1.Val) != w1 || kvsDecode(p2.Val) != w2 {
			cont = &Violation{Kind: "crash-state", Sig: "kvs-continuation", Detail: "after recovery a put was not read back"}
		}
	})
	if v := outcomeViolation(spec.Property, sim.Outcome, "recovery"); v != nil {
		return nil, nil, nil, v
	}
	for _, x := range vec {
		if x == garbageVal {
			return vec, nil, nil, &Violation{Kind: "garbage", Sig: "kvs-recovered-garbage", Detail: fmt.Sprintf("recovered state %v contains a block no put ever wrote (torn multi-put or stale log block)", vec)}
		}
	}
	return vec, trace, img, cont
}

func kvsHistString(recs []*kvsRec, final []uint64) string {
	var b strings.Builder
	for _, r := range recs {
		if r.in.Put {
			fmt.Fprintf(&b, "[c%d put %v=%v @%d-%d] ", r.client, r.in.Keys, r.in.Vals, r.call, r.ret)
		} else {
			fmt.Fprintf(&b, "[c%d get %v -> %d @%d-%d] ", r.client, r.in.Keys, r.out.Val, r.call, r.ret)
		}
	}
	if final != nil {
		fmt.Fprintf(&b, "final=%v", final)
	}
	return b.String()
}
