package main

import (
	"encoding/hex"
	"fmt"
	"sort"
	"strings"

	"verifsim/simrt"
)

// Profile steers the single-client workload generator.
type Profile struct {
	MinOps, MaxOps int
	W              map[string]int // operation weights
	PDead          float64        // use a handle of a removed object
	PGarbage       float64        // use a handle that was never issued
	PBadName       float64        // illegal / over-long / boundary-length names
	PBoundary      float64        // offsets at block / indirection boundaries
	PHuge          float64        // offsets near the announced maximum file size
	MaxData        uint64
	PBig           float64
	PUnstable      float64
	PRestart       float64
	BigFileBlocks  int     // if >0, occasionally build a file this many blocks long (so that removal needs the shrinker)
	PLimit         float64 // values exactly at / around announced limits (C19)
}

var baseWeights = map[string]int{
	"create": 10, "mkdir": 6, "symlink": 3, "write": 22, "read": 10, "setattr": 6, "lookup": 6, "getattr": 4,
	"remove": 7, "rmdir": 3, "rename": 8, "readdir": 2, "readdirplus": 3, "readlink": 2, "commit": 4, "access": 1,
	"fsinfo": 1, "pathconf": 1, "mknod": 1, "link": 1, "fsstat": 1,
}

func weights(over map[string]int) map[string]int {
	w := map[string]int{}
	for k, v := range baseWeights {
		w[k] = v
	}
	for k, v := range over {
		w[k] = v
	}
	return w
}

// relative values: Op.N2 for names holds "#namemax+d" meaning a name of
// length name_max+d; Op.X for sizes/offsets with Op.How2... kept simple:
// Rel field in Op.Raw: "maxfile", "wtmax"; value = limit + Y.

type seqGen struct {
	rng     *simrt.Rng
	m       *Model
	p       *Profile
	tbl     map[int]string // creating op id -> handle (fake at generation time)
	creator map[int]int    // model object id -> creating op id
	nextID  int
	nextPat uint64
	ops     []Op
	names   []string
}

func newSeqGen(rng *simrt.Rng, p *Profile) *seqGen {
	g := &seqGen{rng: rng, p: p, tbl: map[int]string{}, creator: map[int]int{}, nextID: 1, nextPat: 1}
	g.m = NewModel("h0", 1)
	// generation-time stand-ins; the checking model reads the real limits from FSINFO/PATHCONF
	g.m.Lim = Limits{NameMax: 255, MaxFileSize: 1 << 32, WtMax: 1 << 20}
	g.tbl[0] = "h0"
	g.creator[0] = 0
	g.names = []string{"a", "b", "c", "d", "e", "f1", "f2", "dir1", "dir2", "x.y", "A"}
	return g
}

func (g *seqGen) pickObj(kinds ...uint32) *MObj {
	var c []*MObj
	for _, o := range g.m.LiveObjs() {
		for _, k := range kinds {
			if o.Kind == k {
				c = append(c, o)
			}
		}
	}
	if len(c) == 0 {
		return nil
	}
	// bias towards recently created objects
	if g.rng.Chance(0.5) {
		return c[len(c)-1-g.rng.Intn(min(3, len(c)))]
	}
	return c[g.rng.Intn(len(c))]
}

func min(a, b int) int {
	if a < b {
		return a
	}
	return b
}

func (g *seqGen) ref(o *MObj) int { return g.creator[o.ID] }

// handleRef picks a handle reference for an operation that wants an object
// of the given kinds; sometimes a dead or garbage one.
func (g *seqGen) handleRef(op *Op, second bool, kinds ...uint32) bool {
	set := func(v int) {
		if second {
			op.H2 = v
		} else {
			op.H = v
		}
	}
	if g.rng.Chance(g.p.PDead) {
		dead := g.m.DeadObjs()
		if len(dead) > 0 {
			set(g.creator[dead[g.rng.Intn(len(dead))].ID])
			return true
		}
	}
	if g.rng.Chance(g.p.PGarbage) {
		set(-1 - g.rng.Intn(4))
		return true
	}
	o := g.pickObj(kinds...)
	if o == nil {
		return false
	}
	set(g.ref(o))
	return true
}

func (g *seqGen) freshName(d *MObj) string {
	if g.rng.Chance(g.p.PBadName) {
		switch g.rng.Intn(8) {
		case 0:
			return ""
		case 1:
			return "."
		case 2:
			return ".."
		case 3:
			return "#namemax+1"
		case 4:
			return "#namemax+0"
		case 5:
			return "#namemax-1"
		case 6:
			if g.rng.Chance(0.4) {
				// non-ASCII names at and beyond the limit (name_max counts bytes)
				return fmt.Sprintf("#namemax+%d:~u", []int{0, 1, 2, 3, 8, 40, 100}[g.rng.Intn(7)])
			}
			return fmt.Sprintf("#namemax+%d", 2+g.rng.Intn(200))
		default:
			return "#namemax+0"
		}
	}
	if g.rng.Chance(0.7) {
		return g.names[g.rng.Intn(len(g.names))]
	}
	return fmt.Sprintf("n%d", g.rng.Intn(40))
}

func (g *seqGen) existingName(d *MObj) string {
	ns := sortedNames(d.Kids)
	if len(ns) == 0 || g.rng.Chance(0.08) {
		return g.freshName(d)
	}
	return ns[g.rng.Intn(len(ns))]
}

var boundaryOffsets = []uint64{0, 1, 4095, 4096, 4097, 8 * 4096, 8*4096 - 1, 8*4096 + 1, 9 * 4096, (8 + 512) * 4096, (8+512)*4096 - 1, (8+512)*4096 + 1,
	(8 + 512 + 1) * 4096, (8 + 512 + 512) * 4096, (8+512+512)*4096 - 7}

func (g *seqGen) offLen(o *MObj) (off, n uint64, rel string, y int64) {
	r := g.rng
	n = 1 + r.Uint64n(300)
	switch r.Pick([]int{4, 3, 2, 1}) {
	case 1:
		n = []uint64{4096, 4095, 4097, 8192, 1, 100}[r.Intn(6)]
	case 2:
		n = 1 + r.Uint64n(3*4096)
	case 3:
		if g.p.MaxData > 0 && r.Chance(g.p.PBig) {
			n = 1 + r.Uint64n(g.p.MaxData)
		}
	}
	if g.p.MaxData > 0 && n > g.p.MaxData {
		n = g.p.MaxData
	}
	switch {
	case r.Chance(g.p.PHuge):
		if r.Chance(0.25) {
			// far beyond: up to 2^64-1 (offset + count may wrap around)
			rel = "u64"
			y = []int64{-1, -2, -4096, -4097, -int64(n), -int64(n) - 1, -int64(n) + 1, -1 << 62, 1 << 62, 1 << 40}[r.Intn(10)]
			return 0, n, rel, y
		}
		// around the announced maximum file size
		rel = "maxfile"
		y = -int64(n) + []int64{0, 0, 1, -1, -4096, 4096, 7}[r.Intn(7)]
		return 0, n, rel, y
	case r.Chance(g.p.PBoundary):
		off = boundaryOffsets[r.Intn(len(boundaryOffsets))]
		if r.Chance(0.5) && off >= n/2 {
			off -= n / 2 // straddle the boundary
		}
	case o != nil && r.Chance(0.6):
		// overlap / append / near the end
		switch r.Intn(4) {
		case 0:
			off = o.Size
		case 1:
			if o.Size > 0 {
				off = r.Uint64n(o.Size)
			}
		case 2:
			off = o.Size + r.Uint64n(3*4096) // leave a gap
		default:
			off = (o.Size / 4096) * 4096
		}
	default:
		off = r.Uint64n(64 * 4096)
	}
	return off, n, "", 0
}

func (g *seqGen) next() *Op {
	r := g.rng
	ks := make([]string, 0, len(g.p.W))
	for k := range g.p.W {
		ks = append(ks, k)
	}
	sort.Strings(ks)
	ws := make([]int, len(ks))
	for i, k := range ks {
		ws[i] = g.p.W[k]
	}
	for try := 0; try < 50; try++ {
		k := ks[r.Pick(ws)]
		op := &Op{K: k}
		ok := true
		switch k {
		case "create", "mkdir", "symlink", "mknod":
			ok = g.handleRef(op, false, kDIR)
			if ok {
				d := g.objOfRef(op.H)
				op.N = g.freshName(d)
				if k == "create" {
					op.How = r.Pick([]int{6, 3, 1})
				}
				if k == "symlink" {
					op.Len = 1 + r.Uint64n(60)
					if r.Chance(0.15) {
						op.Len = 1 + r.Uint64n(9000) // targets that span several blocks
					}
					if r.Chance(0.02) {
						op.Len = 0 // an empty target is a well-formed request too
					}
					if r.Chance(0.03) {
						// a long target that still fits: accepted, and READLINK returns all of it
						op.Len = 100000 + r.Uint64n(900000)
					}
					if r.Chance(0.01) {
						// a target larger than one journal transaction can hold (511 blocks): the
						// server must refuse it cleanly and go on serving the directory
						op.Len = 2100000 + r.Uint64n(900000)
					}
					op.Pat = g.nextPat
					g.nextPat++
				}
			}
		case "write":
			ok = g.handleRef(op, false, kREG)
			if ok {
				o := g.objOfRef(op.H)
				var rel string
				var y int64
				op.Off, op.Len, rel, y = g.offLen(o)
				if rel != "" {
					op.Raw = rel
					op.Y = y
				}
				op.Cnt = op.Len
				if r.Chance(g.p.PLimit) {
					// a write exactly at / around the announced maximum transfer size
					op.Raw2("wtmax", []int64{0, 0, -1, 1, -4096, 4096}[r.Intn(6)])
				} else if r.Chance(0.02) {
					op.Len, op.Cnt = 0, 0 // nothing to write: succeeds and changes nothing
				} else if rel == "" && op.Len < 60000 && r.Chance(0.04) {
					// more data bytes than the count says: only count bytes are to be written
					op.Len += 1 + r.Uint64n(5000)
				}
				op.Pat = g.nextPat
				g.nextPat++
				if r.Chance(g.p.PUnstable) {
					op.How = 0
				} else {
					op.How = 1 + r.Intn(2)
				}
			}
		case "read":
			ok = g.handleRef(op, false, kREG)
			if ok {
				o := g.objOfRef(op.H)
				var rel string
				var y int64
				op.Off, op.Len, rel, y = g.offLen(o)
				if rel != "" {
					// offsets relative to the announced maximum file size / the top of the
					// 64-bit range: a READ there is a READ beyond the end of the file
					op.Raw, op.Y = rel, y
				}
				if r.Chance(0.3) {
					op.Len = 1 + r.Uint64n(65536)
				}
				if r.Chance(0.015) {
					// a READ far larger than the announced rtmax (over holes it allocates
					// every block it crosses): answered, possibly with a prefix
					op.Len = 2200000 + r.Uint64n(1500000)
					op.Off = 0
					op.Raw = ""
				}
				if o != nil && r.Chance(0.3) {
					op.Off = 0
					op.Raw = ""
					op.Len = o.Size + 10
					if op.Len > 1<<20 {
						op.Len = 1 << 20
					}
				}
			}
		case "setattr":
			if r.Chance(0.1) {
				// guarded SETATTR (sattrguard3.check): the server may apply it or answer
				// NOT_SYNC, and must go on serving the object
				op.How = 1 + r.Intn(2)
			}
			if r.Chance(0.1) {
				op.How |= 4 // also set mode, uid and gid
			}
			if r.Chance(0.12) {
				ok = g.handleRef(op, false, kDIR, kREG, kLNK)
				op.Len = 0
				op.X = int64(1 + r.Intn(3)) // times only: both, atime only, mtime only
			} else {
				ok = g.handleRef(op, false, kREG)
				if r.Chance(0.03) {
					ok = g.handleRef(op, false, kDIR)
				}
				if ok {
					o := g.objOfRef(op.H)
					switch r.Intn(6) {
					case 0:
						op.Off = 0
					case 1:
						if o != nil && o.Size > 0 {
							op.Off = r.Uint64n(o.Size)
						}
					case 2:
						if o != nil {
							op.Off = (o.Size / 4096) * 4096
						}
					case 3:
						if o != nil {
							op.Off = o.Size + 1 + r.Uint64n(20000)
						}
					case 4:
						op.Off = boundaryOffsets[r.Intn(len(boundaryOffsets))]
					default:
						op.Off = r.Uint64n(40 * 4096)
					}
					if r.Chance(g.p.PHuge) || r.Chance(g.p.PLimit) {
						op.Raw = "maxfile"
						op.Y = []int64{0, 1, -1, 4096, -4096, 1 << 40}[r.Intn(6)]
					}
				}
			}
		case "lookup":
			ok = g.handleRef(op, false, kDIR)
			if ok {
				d := g.objOfRef(op.H)
				if d != nil {
					op.N = g.existingName(d)
				} else {
					op.N = "a"
				}
				if r.Chance(0.1) {
					op.N = []string{".", ".."}[r.Intn(2)]
				}
			}
		case "getattr", "access", "fsinfo", "pathconf", "fsstat":
			ok = g.handleRef(op, false, kDIR, kREG, kLNK)
		case "readlink":
			if r.Chance(0.9) {
				ok = g.handleRef(op, false, kLNK)
			} else {
				ok = g.handleRef(op, false, kDIR, kREG)
			}
		case "commit":
			ok = g.handleRef(op, false, kREG)
			if ok && r.Chance(0.25) {
				// a sub-range (offset, count), inside or reaching beyond the end of the file
				if o := g.objOfRef(op.H); o != nil && o.Size > 0 {
					op.Off = r.Uint64n(o.Size + 1)
					op.Len = uint64(r.Intn(3)) * r.Uint64n(o.Size+4096)
				}
			}
		case "remove", "rmdir":
			ok = g.handleRef(op, false, kDIR)
			if ok {
				d := g.objOfRef(op.H)
				if d != nil {
					op.N = g.existingName(d)
				} else {
					op.N = "a"
				}
			}
		case "rename":
			ok = g.handleRef(op, false, kDIR) && g.handleRef(op, true, kDIR)
			if ok {
				fd := g.objOfRef(op.H)
				td := g.objOfRef(op.H2)
				if r.Chance(0.5) {
					op.H2 = op.H
					td = fd
				}
				if fd != nil {
					op.N = g.existingName(fd)
				} else {
					op.N = "a"
				}
				if td != nil && r.Chance(0.4) {
					op.N2 = g.existingName(td)
				} else {
					op.N2 = g.freshName(td)
				}
			}
		case "link":
			ok = g.handleRef(op, false, kREG) && g.handleRef(op, true, kDIR)
			op.N = "lnk"
		case "readdir", "readdirplus":
			ok = g.handleRef(op, false, kDIR)
			if r.Chance(0.05) {
				ok = g.handleRef(op, false, kREG)
			}
			op.Len = []uint64{100000, 4096, 1024, 600, 8192}[r.Intn(5)]
		}
		if !ok {
			continue
		}
		return op
	}
	return &Op{K: "getattr", H: 0}
}

// Raw2 marks a count relative to an announced limit.
func (op *Op) Raw2(rel string, y int64) {
	op.Raw = rel
	op.Y = y
}

func (g *seqGen) objOfRef(ref int) *MObj {
	h, ok := g.tbl[ref]
	if !ok {
		return nil
	}
	o, r := g.m.resolve(h)
	if r != hLive {
		return nil
	}
	return o
}

// emit appends op to the workload and advances the predictive model.
func (g *seqGen) emit(op *Op) {
	op.ID = g.nextID
	g.nextID++
	g.ops = append(g.ops, *op)
	switch op.K {
	case "restart", "rawmsg", "rawbytes", "mnt", "umnt", "umntall", "dump", "export", "mountnull", "fillto":
		return
	}
	in := toIn(op, g.tbl, &g.m.Lim)
	if in == nil {
		return
	}
	before := g.m.NextID
	if err := g.m.Step(in, nil); err != nil {
		panic("generator: predictive step failed: " + err.Error())
	}
	if g.m.NextID > before {
		// an object was created (predicted): bind its fake handle
		o := g.m.Objs[before]
		g.tbl[op.ID] = o.H
		g.creator[o.ID] = op.ID
	}
}

// toIn turns a symbolic operation into a concrete request. tbl maps creating
// op ids to handles; unresolvable references yield nil (operation skipped).
func toIn(op *Op, tbl map[int]string, lim *Limits) *In {
	h := func(ref int) (string, bool) {
		if ref < 0 {
			// a well-sized handle that was never issued
			b := make([]byte, 16)
			for i := range b {
				b[i] = byte(0xA0 + (-ref)*7 + i)
			}
			if ref == -2 {
				// inode number of the root with a wrong generation
				copy(b, []byte{1, 0, 0, 0, 0, 0, 0, 0, 0x77, 0, 0, 0, 0, 0, 0, 0})
			}
			if ref == -3 {
				copy(b, []byte{0, 0, 0, 0, 0, 0, 0, 0, 0, 0, 0, 0, 0, 0, 0, 0})
			}
			return string(b), true
		}
		s, ok := tbl[ref]
		return s, ok
	}
	name := func(n string) string {
		if strings.HasPrefix(n, "#namemax") {
			// "#namemax<+d>" or "#namemax<+d>:<tag>": a name of length name_max+d (starting with tag)
			var d int
			rest := n[len("#namemax"):]
			tag := ""
			if i := strings.Index(rest, ":"); i >= 0 {
				tag = rest[i+1:]
				rest = rest[:i]
			}
			fmt.Sscanf(rest, "%d", &d)
			l := int(lim.NameMax) + d
			if l < 0 {
				l = 0
			}
			if strings.HasPrefix(tag, "~u") {
				// l bytes of two-byte characters (fewer characters than bytes: limits count bytes)
				s := strings.Repeat("\u00e9", l/2)
				if l%2 == 1 {
					s += "L"
				}
				return s
			}
			if len(tag) > l {
				tag = tag[:l]
			}
			return tag + strings.Repeat("L", l-len(tag))
		}
		return n
	}
	in := &In{K: op.K, Name: name(op.N), Name2: name(op.N2)}
	var ok bool
	if in.Obj, ok = h(op.H); !ok {
		return nil
	}
	if op.HX != "" || op.X == 9 {
		b, _ := hex.DecodeString(op.HX)
		in.Obj = string(b) // X == 9 with empty HX: the empty handle
	}
	if op.NX != "" {
		b, _ := hex.DecodeString(op.NX)
		in.Name = string(b)
	}
	if op.X == 7 {
		in.BadCookie = true
	}
	switch op.K {
	case "rename", "link":
		if in.Obj2, ok = h(op.H2); !ok {
			return nil
		}
		if op.HX2 != "" {
			b, _ := hex.DecodeString(op.HX2)
			in.Obj2 = string(b)
		}
	}
	switch op.K {
	case "write":
		in.Off, in.Count, in.How = op.Off, op.Cnt, op.How
		n := op.Len
		switch op.Raw {
		case "maxfile":
			in.Off = uint64(int64(lim.MaxFileSize) + op.Y)
		case "u64":
			in.Off = uint64(op.Y) // two's complement: -1 = 2^64-1
		case "wtmax":
			n = uint64(int64(lim.WtMax) + op.Y)
			in.Count = n
		}
		if n > 64<<20 {
			n = 64 << 20 // never materialise absurd buffers; count then disagrees with the data on purpose
		}
		in.Data = patData(op.Pat, 0, n)
	case "read":
		in.Off, in.Count = op.Off, op.Len
		switch op.Raw {
		case "maxfile":
			in.Off = uint64(int64(lim.MaxFileSize) + op.Y)
		case "u64":
			in.Off = uint64(op.Y)
		}
	case "setattr":
		in.How = op.How // guard: 0 none, 1 a ctime the object never had, 2 ctime zero
		if op.X == 1 {
			in.SetTm = true
		} else if op.X == 2 {
			in.SetAt = true
		} else if op.X == 3 {
			in.SetMt = true
		} else {
			in.SetSz = true
			in.Size = op.Off
			if op.Raw == "maxfile" {
				in.Size = uint64(int64(lim.MaxFileSize) + op.Y)
			}
		}
	case "symlink":
		in.Data = patData(op.Pat, 0, op.Len)
		for i := range in.Data {
			in.Data[i] = 'a' + in.Data[i]%26
		}
	case "create":
		in.How = op.How
	case "readdir":
		in.Count = op.Len
		in.Cookie = op.Off
	case "readdirplus":
		in.Dircnt = op.Len
		in.Maxcnt = op.Len
		if op.Cnt != 0 {
			in.Dircnt = op.Cnt
		}
		in.Cookie = op.Off
	case "commit":
		in.Off, in.Count = op.Off, op.Len
	}
	return in
}

// ---- adversarial requests (C11) ----

var advU64 = []uint64{0, 1, 4095, 4096, 1<<31 - 1, 1 << 31, 1<<32 - 1, 1 << 32, 1<<32 + 1, 1<<63 - 1, 1 << 63, 1<<64 - 1, 1<<64 - 2, 1<<64 - 4096, 1<<64 - 4097}
var advCnt = []uint64{0, 1, 100, 4096, 65536, 1 << 20, 1 << 31, 1<<32 - 1}
var advKinds = []string{"getattr", "setattr", "lookup", "access", "readlink", "read", "write", "create", "mkdir", "symlink", "mknod", "remove", "rmdir",
	"rename", "link", "readdir", "readdirplus", "fsstat", "fsinfo", "pathconf", "commit", "null"}

func (g *seqGen) garbageHandle() string {
	r := g.rng
	l := []int{0, 1, 7, 8, 9, 15, 16, 16, 16, 17, 24, 32, 63, 64}[r.Intn(14)]
	b := make([]byte, l)
	for i := range b {
		b[i] = byte(r.Uint64())
	}
	if l >= 16 {
		switch r.Intn(5) {
		case 4: // a live-looking handle (small inode number, generation 1) with high bits set in
			// one of its two numbers: it must not alias the object with those bits dropped
			ino := uint64(1 + r.Intn(12))
			gen := uint64(1)
			hi := uint64(1) << []uint{16, 32, 32, 40, 63}[r.Intn(5)]
			if r.Chance(0.7) {
				ino += hi
			} else {
				gen += hi
			}
			for i := 0; i < 8; i++ {
				b[i] = byte(ino >> (8 * i))
				b[8+i] = byte(gen >> (8 * i))
			}
			b = b[:16]
		case 0: // a plausible inode number with a wrong generation
			for i := 0; i < 8; i++ {
				b[i] = 0
			}
			b[0] = byte(1 + r.Intn(12))
		case 1: // inode number just beyond / far beyond the table
			v := []uint64{32767, 32768, 32769, 1 << 20, 1 << 40, 1<<64 - 1}[r.Intn(6)]
			for i := 0; i < 8; i++ {
				b[i] = byte(v >> (8 * i))
			}
		}
	}
	return hex.EncodeToString(b)
}

func (g *seqGen) advName() (string, string) {
	r := g.rng
	switch r.Intn(6) {
	case 0:
		return "", "" // empty
	case 1:
		return []string{".", ".."}[r.Intn(2)], ""
	case 2:
		l := []int{110, 111, 112, 113, 128, 255, 256, 300}[r.Intn(8)]
		return strings.Repeat("N", l), ""
	case 3:
		// arbitrary bytes incl. '/', NUL and non-UTF-8
		l := 1 + r.Intn(20)
		b := make([]byte, l)
		for i := range b {
			b[i] = byte(r.Uint64())
		}
		for i := range b {
			if b[i] == '/' {
				b[i] = '\\' // (paths in reports are joined with '/'; a '/' inside a name is latitude anyway)
			}
		}
		if r.Chance(0.3) {
			b[r.Intn(l)] = 0
		}
		return "x", hex.EncodeToString(b)
	default:
		return g.names[r.Intn(len(g.names))], ""
	}
}

func (g *seqGen) advOp() *Op {
	r := g.rng
	op := &Op{K: advKinds[r.Intn(len(advKinds))]}
	if r.Chance(0.55) {
		op.HX = g.garbageHandle()
		if op.HX == "" {
			op.X = 9
		}
	} else if !g.handleRef(op, false, kDIR, kREG, kLNK) {
		op.HX = g.garbageHandle()
	}
	switch op.K {
	case "rename", "link":
		if r.Chance(0.5) {
			op.HX2 = g.garbageHandle()
		} else {
			g.handleRef(op, true, kDIR)
		}
		op.N, op.NX = g.advName()
		op.N2, _ = g.advName()
	case "lookup", "create", "mkdir", "symlink", "mknod", "remove", "rmdir":
		op.N, op.NX = g.advName()
		op.Len = uint64(r.Intn(40))
		op.Pat = g.nextPat
		g.nextPat++
		op.How = r.Intn(3)
	case "read":
		op.Off = advU64[r.Intn(len(advU64))]
		op.Len = advCnt[r.Intn(len(advCnt)-2)]
		if r.Chance(0.04) {
			op.Len = advCnt[len(advCnt)-1-r.Intn(2)] // 2^31, 2^32-1: costly (fills every hole of the file)
		}
	case "write":
		op.Off = advU64[r.Intn(len(advU64))]
		op.Cnt = advCnt[r.Intn(len(advCnt))]
		op.Len = []uint64{0, 1, 100, 4096, 8192}[r.Intn(5)] // bytes of data actually supplied
		if r.Chance(0.3) {
			op.Cnt = op.Len
		}
		op.Pat = g.nextPat
		g.nextPat++
		op.How = r.Intn(3)
	case "setattr":
		op.Off = advU64[r.Intn(len(advU64))]
	case "commit":
		op.Off = advU64[r.Intn(len(advU64))]
		op.Len = advCnt[r.Intn(len(advCnt))]
	case "readdir", "readdirplus":
		op.Off = advU64[r.Intn(len(advU64))]
		switch r.Intn(4) {
		case 0:
			op.Off = uint64(r.Intn(5000)) // misaligned / never issued
		case 1:
			// aligned to the entry size: inside, at and beyond the end of the directory, and at the top of the range
			op.Off = []uint64{128, 256, 384, 512, 4096, 4096 + 128, 1 << 20, 1 << 32, 1 << 63, 1<<64 - 128, 1<<64 - 256, 1<<64 - 384, 1<<64 - 4096}[r.Intn(13)]
		}
		op.X = 7
		op.Len = advCnt[r.Intn(len(advCnt))]
		op.Cnt = advCnt[r.Intn(len(advCnt))]
	}
	return op
}

// mutateMsg produces a byte-level mutation of a well-formed call message.
func (g *seqGen) mutateMsg(msg []byte) []byte {
	r := g.rng
	b := append([]byte{}, msg...)
	switch r.Intn(6) {
	case 0: // truncate
		if len(b) > 4 {
			b = b[:r.Intn(len(b))]
		}
	case 1: // corrupt a 4-byte aligned word (length fields, discriminants)
		if len(b) >= 8 {
			i := 4 * r.Intn(len(b)/4)
			v := []uint32{0, 1, 2, 0xffffffff, 0x7fffffff, 0x80000000, 65, 1 << 20}[r.Intn(8)]
			b[i], b[i+1], b[i+2], b[i+3] = byte(v>>24), byte(v>>16), byte(v>>8), byte(v)
		}
	case 2: // flip random bytes
		for k := 0; k < 1+r.Intn(4) && len(b) > 0; k++ {
			b[r.Intn(len(b))] ^= byte(1 << uint(r.Intn(8)))
		}
	case 3: // append garbage
		for k := 0; k < 1+r.Intn(64); k++ {
			b = append(b, byte(r.Uint64()))
		}
	case 4: // wrong rpc version / program / procedure
		if len(b) >= 24 {
			i := 8 + 4*r.Intn(4)
			b[i+3] ^= byte(1 + r.Intn(200))
		}
	default: // zero-length
		b = b[:0]
	}
	return b
}
