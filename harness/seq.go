package main

import (
	"encoding/hex"
	"fmt"
	"sort"
	"strings"

	"github.com/mit-pdos/go-journal/common"
	"github.com/mit-pdos/go-journal/jrnl"
	"github.com/mit-pdos/go-nfsd/dir"
	"github.com/mit-pdos/go-nfsd/inode"

	"verifsim/simdisk"
	"verifsim/simrt"
)

// The single-client engine: a generated operation sequence is run against the
// real server inside the simulation; every reply is checked by the reference
// model M; structural (F), conservation (A), cache-coherence and
// restart-equivalence (R) oracles run at quiescent points; afterwards every
// crash point of the recorded disk trace is recovered and checked by
// crash-prefix refinement (P).

type seqEngine struct{}

func init() {
	register("seq", seqEngine{}, "C01", "C02", "C04", "C05", "C07", "C08", "C09", "C10", "C11", "C12", "C19")
}

// ---- API-level dump of a server ----

type DumpEnt struct {
	Path   string
	Kind   uint32
	Size   uint64
	FileID uint64
	H      string
	Target string
}

// dumpTree walks the whole tree through READDIRPLUS / READLINK.
func dumpTree(r *Rig, rootH string) ([]DumpEnt, error) {
	var out []DumpEnt
	ra := r.Call(&In{K: "getattr", Obj: rootH})
	if ra.Crashed || ra.Status != 0 || ra.Attr == nil {
		return nil, fmt.Errorf("GETATTR of the root failed (status %d)", ra.Status)
	}
	out = append(out, DumpEnt{Path: "/", Kind: ra.Attr.Type, Size: ra.Attr.Size, FileID: ra.Attr.FileID, H: rootH})
	type item struct {
		h, path string
		depth   int
		fileid  uint64
		parent  uint64
	}
	queue := []item{{rootH, "/", 0, ra.Attr.FileID, ra.Attr.FileID}}
	seenDirs := map[uint64]bool{ra.Attr.FileID: true}
	for len(queue) > 0 {
		it := queue[0]
		queue = queue[1:]
		if it.depth > 64 {
			return nil, fmt.Errorf("directory nesting deeper than 64 at %s (cycle?)", it.path)
		}
		cookie := uint64(0)
		names := map[string]bool{}
		for calls := 0; ; calls++ {
			rep := r.Call(&In{K: "readdirplus", Obj: it.h, Cookie: cookie, Dircnt: 1 << 20, Maxcnt: 1 << 20})
			if rep.Crashed {
				return nil, fmt.Errorf("crashed")
			}
			if rep.Status != 0 {
				return nil, fmt.Errorf("READDIRPLUS of %s failed with status %d", it.path, rep.Status)
			}
			for _, e := range rep.Ents {
				cookie = e.Cookie
				if names[e.Name] {
					return nil, fmt.Errorf("READDIRPLUS of %s lists %q twice", it.path, e.Name)
				}
				names[e.Name] = true
				if e.Name == "." {
					if e.FileID != it.fileid {
						return nil, fmt.Errorf("'.' of %s has file id %d, the directory's is %d", it.path, e.FileID, it.fileid)
					}
					continue
				}
				if e.Name == ".." {
					if e.FileID != it.parent {
						return nil, fmt.Errorf("'..' of %s has file id %d, its parent's is %d", it.path, e.FileID, it.parent)
					}
					continue
				}
				if e.Attr == nil || !e.HasH {
					// attributes and handle are optional in READDIRPLUS: look the name up
					lk := r.Call(&In{K: "lookup", Obj: it.h, Name: e.Name})
					if lk.Status != 0 || lk.Attr == nil || !lk.HasH {
						return nil, fmt.Errorf("READDIRPLUS of %s lists %q but LOOKUP of it fails (status %d)", it.path, e.Name, lk.Status)
					}
					if lk.Attr.FileID != e.FileID {
						return nil, fmt.Errorf("READDIRPLUS of %s lists %q with file id %d, LOOKUP says %d", it.path, e.Name, e.FileID, lk.Attr.FileID)
					}
					e.Attr, e.H, e.HasH = lk.Attr, lk.H, true
				}
				p := it.path + escName(e.Name)
				de := DumpEnt{Path: p, Kind: e.Attr.Type, Size: e.Attr.Size, FileID: e.FileID, H: e.H}
				switch e.Attr.Type {
				case kLNK:
					rl := r.Call(&In{K: "readlink", Obj: e.H})
					if rl.Status != 0 {
						return nil, fmt.Errorf("READLINK of %s failed with status %d", p, rl.Status)
					}
					de.Target = string(rl.Data)
				case kDIR:
					if seenDirs[e.FileID] {
						return nil, fmt.Errorf("directory with file id %d reachable twice (at %s)", e.FileID, p)
					}
					seenDirs[e.FileID] = true
					queue = append(queue, item{e.H, p + "/", it.depth + 1, e.FileID, it.fileid})
				}
				out = append(out, de)
			}
			if rep.Eof {
				break
			}
			if len(rep.Ents) == 0 || calls > 100000 {
				return nil, fmt.Errorf("READDIRPLUS of %s makes no progress at cookie %d", it.path, cookie)
			}
		}
		if !names["."] || !names[".."] {
			return nil, fmt.Errorf("READDIRPLUS of %s does not list '.' and '..'", it.path)
		}
	}
	return out, nil
}

func metaOfDump(ents []DumpEnt) string {
	var lines []string
	for _, e := range ents {
		p := strings.TrimSuffix(e.Path, "/")
		if p == "" {
			p = "/"
		}
		switch e.Kind {
		case kDIR:
			lines = append(lines, p+" d")
		case kREG:
			lines = append(lines, fmt.Sprintf("%s f %d", p, e.Size))
		case kLNK:
			lines = append(lines, fmt.Sprintf("%s l %q", p, e.Target))
		default:
			lines = append(lines, fmt.Sprintf("%s ?%d", p, e.Kind))
		}
	}
	sort.Strings(lines)
	return strings.Join(lines, "\n")
}

func (m *Model) metaSorted() string {
	l := strings.Split(m.MetaDump(), "\n")
	sort.Strings(l)
	return strings.Join(l, "\n")
}

// firstDiff returns the first line present in only one of two sorted dumps.
func firstDiff(a, b string) string {
	la, lb := strings.Split(a, "\n"), strings.Split(b, "\n")
	sa := map[string]bool{}
	for _, l := range la {
		sa[l] = true
	}
	sb := map[string]bool{}
	for _, l := range lb {
		sb[l] = true
	}
	var out []string
	for _, l := range la {
		if !sb[l] {
			out = append(out, "server has ["+clip(l)+"]")
			break
		}
	}
	for _, l := range lb {
		if !sa[l] {
			out = append(out, "reference has ["+clip(l)+"]")
			break
		}
	}
	return strings.Join(out, "; ")
}

// verifyAgainst checks the server content against model state m: the tree
// (through the dump), every handle, and every byte the model knows plus
// samples of the holes.
func verifyAgainst(r *Rig, m *Model, ents []DumpEnt, deep bool) error {
	byPath := map[string]DumpEnt{}
	for _, e := range ents {
		byPath[strings.TrimSuffix(e.Path, "/")] = e
	}
	for _, o := range m.LiveObjs() {
		p := strings.TrimSuffix(m.PathOf(o), "/")
		if o.ID == m.Root {
			p = ""
		}
		e, ok := byPath[p]
		if !ok {
			return mm("object %s of the reference is not in the server's tree", m.PathOf(o))
		}
		if e.H != o.H {
			return mm("%s: the server now returns handle %x, the handle issued earlier was %x", m.PathOf(o), e.H, o.H)
		}
		if e.FileID != o.FileID {
			return mm("%s: file id changed from %d to %d", m.PathOf(o), o.FileID, e.FileID)
		}
		// the old handle must still denote the object
		out := r.Call(&In{K: "getattr", Obj: o.H})
		if err := m.Step(&In{K: "getattr", Obj: o.H}, out); err != nil {
			return err
		}
		if o.Kind == kREG {
			if err := verifyFile(r, m, o, deep); err != nil {
				return err
			}
		}
	}
	if deep {
		for _, o := range m.DeadObjs() {
			if o.H == "" {
				continue
			}
			in := &In{K: "getattr", Obj: o.H}
			if err := m.Step(in, r.Call(in)); err != nil {
				return err
			}
		}
	}
	return nil
}

func verifyFile(r *Rig, m *Model, o *MObj, deep bool) error {
	read := func(off, n uint64) error {
		in := &In{K: "read", Obj: o.H, Off: off, Count: n}
		return m.Step(in, r.Call(in))
	}
	pgs := make([]uint64, 0, len(o.Pages))
	for p := range o.Pages {
		if p*pageSz < o.Size {
			pgs = append(pgs, p)
		}
	}
	sort.Slice(pgs, func(i, j int) bool { return pgs[i] < pgs[j] })
	holes := 0
	for i := 0; i < len(pgs); {
		j := i
		for j+1 < len(pgs) && pgs[j+1] == pgs[j]+1 && j-i < 7 {
			j++
		}
		off := pgs[i] * pageSz
		n := (pgs[j] - pgs[i] + 1) * pageSz
		if err := read(off, n); err != nil {
			return err
		}
		// the hole right after this extent
		if deep && holes < 3 && (pgs[j]+1)*pageSz < o.Size && (j+1 >= len(pgs) || pgs[j+1] != pgs[j]+1) {
			holes++
			if err := read((pgs[j]+1)*pageSz, pageSz); err != nil {
				return err
			}
		}
		i = j + 1
	}
	if o.Size > 0 {
		// the tail (size boundary) and, for sparse files, the start
		t := uint64(512)
		if t > o.Size {
			t = o.Size
		}
		if err := read(o.Size-t, t+100); err != nil {
			return err
		}
		if deep && len(pgs) == 0 || (len(pgs) > 0 && pgs[0] != 0) {
			if err := read(0, 600); err != nil {
				return err
			}
		}
	}
	return nil
}

// rawSnapshot renders everything a client can observe about the objects the
// model knows, including time stamps (both sides of a restart read the same
// disk, so they must agree exactly).
func rawSnapshot(r *Rig, m *Model) string {
	var b strings.Builder
	for _, o := range m.LiveObjs() {
		fmt.Fprintf(&b, "%s: %s\n", m.PathOf(o), r.RawAttr(o.H))
		if o.Kind == kDIR {
			b.WriteString(r.RawList(o.H))
		}
		if o.Kind == kLNK {
			b.WriteString(string(r.Call(&In{K: "readlink", Obj: o.H}).Data) + "\n")
		}
	}
	return b.String()
}

// cacheCoherence (C10): every cached inode and cached directory entry agrees
// with the logical disk.
func cacheCoherence(r *Rig) error {
	st := r.Srv.VerifFsState()
	op := jrnl.Begin(st.Txn)
	var err error
	st.Icache.VerifEach(func(id uint64, obj interface{}) {
		if err != nil || obj == nil {
			return
		}
		ip, ok := obj.(*inode.Inode)
		if !ok || ip == nil {
			return
		}
		dsk := inode.Decode(op.ReadBuf(st.Super.Inum2Addr(id), common.INODESZ*8), id)
		if ip.String() != dsk.String() || ip.Atime != dsk.Atime || ip.Mtime != dsk.Mtime || ip.Nlink != dsk.Nlink {
			err = ferr("icache", "cached inode differs from the disk: cache {%s atime %v mtime %v} disk {%s atime %v mtime %v}", ip.String(), ip.Atime, ip.Mtime, dsk.String(), dsk.Atime, dsk.Mtime)
			return
		}
		if ip.Dcache != nil && uint32(dsk.Kind) == kDIR {
			n := 0
			ip.Dcache.VerifEach(func(name string, d dcacheDentry) {
				n++
				if err != nil {
					return
				}
				raw, ok := readFileBytes(r, op, dsk, d.Off, dir.DIRENTSZ)
				if !ok {
					err = ferr("dcache", "directory inode %d: cached entry %q at offset %d is beyond the on-disk directory", id, name, d.Off)
					return
				}
				ino, nm := decodeDirEntSafe(raw)
				if ino != d.Inum || nm != name {
					err = ferr("dcache", "directory inode %d: cache says %q -> inode %d at offset %d, the disk has %q -> inode %d", id, name, d.Inum, d.Off, nm, ino)
				}
			})
			if err != nil {
				return
			}
			// every live on-disk entry is in the cache
			live := 0
			for off := uint64(0); off < dsk.Size; off += dir.DIRENTSZ {
				raw, ok := readFileBytes(r, op, dsk, off, dir.DIRENTSZ)
				if !ok {
					continue
				}
				if ino, _ := decodeDirEntSafe(raw); ino != 0 {
					live++
				}
			}
			if live != n {
				err = ferr("dcache", "directory inode %d: %d names cached, %d entries on disk", id, n, live)
			}
		}
	})
	return err
}

// ---- generation ----

func seqProfile(prop string, rng *simrt.Rng, tier string) (*Profile, map[string]int64, uint64) {
	th := tier == "thorough"
	p := &Profile{MinOps: 30, MaxOps: 120, W: weights(nil), PDead: 0.04, PGarbage: 0.02, PBadName: 0.06,
		PBoundary: 0.2, PHuge: 0.02, MaxData: 200 << 10, PBig: 0.15, PUnstable: 0.4, PRestart: 0.02}
	k := map[string]int64{"unstable": int64(rng.Intn(2)), "crash": 0, "subsets": 2, "fsck_every": 10, "icache": 0, "nshard": 0}
	if rng.Chance(0.3) {
		k["icache"] = []int64{3, 8}[rng.Intn(2)]
	}
	disk := uint64(20000 + rng.Intn(30000))
	if th {
		p.MaxOps = 300
	}
	// a third of the runs go through the XDR/RPC transport and the real server loop
	k["rpc"] = int64(rng.Intn(3) / 2)
	switch prop {
	case "C01":
		p.MinOps, p.MaxOps = 6, 30
		if th {
			p.MaxOps = 60
		}
		p.W = weights(map[string]int{"read": 3, "lookup": 2, "getattr": 1, "readdir": 0, "readdirplus": 1, "fsinfo": 0, "pathconf": 0, "mknod": 0, "link": 0, "fsstat": 0, "access": 0})
		p.PDead, p.PGarbage, p.PBadName = 0.02, 0, 0.02
		p.MaxData = 96 << 10
		p.BigFileBlocks = 700
		k["crash"] = 1
		k["fsck_every"] = 0
		k["nshard"] = 257
		if th {
			k["subsets"] = 8
		}
		disk = uint64(3000 + rng.Intn(9000))
	case "C07":
		p.MinOps, p.MaxOps = 6, 28
		if th {
			p.MaxOps = 60
		}
		p.W = weights(map[string]int{"write": 40, "commit": 12, "read": 4, "create": 8, "mkdir": 2, "symlink": 1, "rename": 3, "remove": 3, "readdir": 0, "readdirplus": 0,
			"fsinfo": 0, "pathconf": 0, "mknod": 0, "link": 0, "fsstat": 0, "access": 0, "lookup": 1, "getattr": 1, "rmdir": 1, "readlink": 0})
		p.PUnstable = 0.75
		p.PDead, p.PGarbage, p.PBadName, p.PHuge = 0, 0, 0, 0
		p.MaxData = 40 << 10
		p.PRestart = 0.04
		k["crash"] = 1
		k["fsck_every"] = 0
		k["nshard"] = 257
		if th {
			k["subsets"] = 8
		}
		disk = uint64(3000 + rng.Intn(5000))
	case "C12":
		p.MinOps, p.MaxOps = 10, 40
		if th {
			p.MaxOps = 80
		}
		p.W = weights(map[string]int{"write": 35, "setattr": 25, "remove": 10, "create": 12, "read": 12, "mkdir": 1, "symlink": 1, "rename": 2, "readdir": 0, "readdirplus": 0,
			"fsinfo": 0, "pathconf": 0, "mknod": 0, "link": 0, "fsstat": 0, "access": 0, "lookup": 1, "getattr": 1, "rmdir": 0, "readlink": 0, "commit": 2})
		p.PDead, p.PGarbage, p.PBadName, p.PHuge = 0, 0, 0, 0.01
		p.MaxData = 64 << 10
		k["crash"] = int64(rng.Intn(2))
		k["fsck_every"] = 0
		k["nshard"] = 257
		k["readback"] = 1
		p.BigFileBlocks = 600
		k["nospace"] = 1                     // the disks are small on purpose: running out of space is legitimate here
		disk = uint64(1700 + rng.Intn(1500)) // small, so that blocks are recycled quickly
	case "C04":
		p.MinOps, p.MaxOps = 10, 50
		p.W = weights(map[string]int{"read": 3, "getattr": 1, "lookup": 2, "rename": 14, "mkdir": 10, "rmdir": 6, "remove": 8, "setattr": 8})
		k["fsck_every"] = 1
		k["crash"] = int64(rng.Intn(2))
		k["nshard"] = 257
		p.BigFileBlocks = 700
		p.MaxData = 64 << 10
		disk = uint64(3000 + rng.Intn(9000))
	case "C05":
		p.MinOps, p.MaxOps = 15, 60
		p.W = weights(map[string]int{"read": 8, "getattr": 1, "lookup": 1, "rename": 10, "mkdir": 8, "setattr": 10, "remove": 4, "rmdir": 2})
		p.BigFileBlocks = 900
		p.PHuge = 0.03
		k["fsck_every"] = 5
		k["deleteall"] = 1
		k["allocfail"] = int64(rng.Intn(2))
		if rng.Chance(0.1) {
			// "a crash in the middle of freeing loses no space permanently": every crash
			// point of a tenth of the histories, with the continuation that touches what
			// the crash left half-freed
			k["crash"] = 1
			k["allocfail"] = 0
		}
		disk = uint64(4000 + rng.Intn(9000))
	case "C08":
		p.W = weights(map[string]int{"create": 16, "remove": 16, "mkdir": 8, "rmdir": 8, "rename": 10, "write": 8})
		p.PDead = 0.3
		p.PGarbage = 0.05
		p.MaxData = 20 << 10
		k["fsck_every"] = 0
		k["dead_sweep"] = 1
		p.PRestart = 0.04
		if th && rng.Chance(0.01) {
			k["exhaust"] = 1 // real inode exhaustion (about a minute of simulation)
		}
	case "C09":
		p.MinOps, p.MaxOps = 20, 100
		p.W = weights(map[string]int{"write": 30, "create": 12, "mkdir": 8, "symlink": 5, "rename": 12, "setattr": 8})
		p.PBadName = 0.15
		p.MaxData = 48 << 10
		p.PBig = 0.3
		p.PRestart = 0.03
		k["nospace"] = 1
		k["fsck_every"] = 3
		k["fail_audit"] = 1
		k["allocfail"] = int64(rng.Intn(3) / 2)
		// data region of 8..200 blocks beyond the fixed areas; the first size that formats is found by the engine
		k["data_blocks"] = int64(8 + rng.Intn(193))
		disk = 0
		if rng.Chance(0.2) {
			// journal pressure instead of space pressure: a large disk, no injected
			// allocation failures, requests of several megabytes (READs over sparse
			// files, writes, link targets): what one transaction cannot hold must be
			// refused without a trace, everything else must succeed
			k["nospace"], k["allocfail"] = 0, 0
			disk = uint64(20000 + rng.Intn(30000))
			p.PHuge = 0.15
			p.MaxData = 200 << 10
		}
	case "C10":
		p.MinOps, p.MaxOps = 20, 120
		p.PRestart = 0.08
		k["fsck_every"] = 4
		k["coherence"] = 1
		k["image_restart"] = 1
		if rng.Chance(0.3) {
			k["allocfail"] = 1 // short writes / aborted allocations: allocators must still agree with the disk
		}
		if rng.Chance(0.3) {
			k["many_objects"] = 1 // more live objects than the inode cache holds
		}
	case "C11":
		p.MinOps, p.MaxOps = 20, 90
		p.PDead, p.PGarbage, p.PBadName = 0.1, 0.1, 0.2
		p.PHuge = 0.1
		p.MaxData = 32 << 10
		k["fsck_every"] = 8
		k["adversarial"] = 1
		k["nospace"] = 1 // huge READs fill holes until the disk is full: running out of space is legitimate here
		k["rpc"] = int64(rng.Intn(2))
		disk = uint64(4000 + rng.Intn(8000))
	case "C19":
		p.MinOps, p.MaxOps = 15, 60
		p.PLimit = 0.3
		p.PBadName = 0.45
		p.PHuge = 0.25
		p.PDead, p.PGarbage = 0, 0
		p.MaxData = 16 << 10
		p.W = weights(map[string]int{"write": 25, "create": 14, "mkdir": 5, "symlink": 3, "rename": 12, "setattr": 14, "lookup": 8, "read": 8, "fsinfo": 2, "pathconf": 2})
		k["fsck_every"] = 6
		disk = uint64(30000 + rng.Intn(30000))
	}
	switch prop {
	case "C02", "C05", "C08", "C09", "C10", "C12", "C19":
		// a quarter of the runs: allocators that hand out the lowest free number (a
		// block or inode number freed a moment ago is reused by the next request)
		if rng.Chance(0.25) {
			k["alloc_lowest"] = 1
		}
	}
	return p, k, disk
}

func (seqEngine) Gen(prop string, seed uint64, tier string) *Spec {
	rng := simrt.Stream(seed, "workload")
	p, knobs, disk := seqProfile(prop, rng, tier)
	spec := &Spec{Property: prop, Engine: "seq", Seed: seed, Tier: tier, Disk: disk, Knobs: knobs,
		Sched: genSched(simrt.Stream(seed, "schedcfg"), seed, false)}
	g := newSeqGen(rng, p)
	n := p.MinOps + rng.Intn(p.MaxOps-p.MinOps+1)
	bigAt := -1
	if p.BigFileBlocks > 0 && rng.Chance(0.35) {
		bigAt = rng.Intn(n)
	}
	if knobs["many_objects"] == 1 {
		for i := 0; i < 110; i++ {
			g.emit(&Op{K: "create", H: 0, N: fmt.Sprintf("m%d", i), How: 1})
		}
	}
	burstAt := -1
	if rng.Chance(0.12) {
		burstAt = rng.Intn(n)
	}
	drainAt := -1
	if rng.Chance(0.10) {
		drainAt = rng.Intn(n)
	}
	overAt := -1
	if rng.Chance(0.12) {
		overAt = rng.Intn(n)
	}
	fillAt := -1
	if knobs["nospace"] == 1 && knobs["crash"] == 0 && rng.Chance(0.3) {
		fillAt = rng.Intn(n)
	}
	for i := 0; i < n; i++ {
		if i == fillAt {
			// fill the disk down to 0-3 free blocks, then requests that need one block
			// more than there is (so that they fail after allocating something) mixed
			// with requests that fit exactly
			g.emit(&Op{K: "create", H: 0, N: fmt.Sprintf("zzfill%d", i), How: 1})
			fid := g.ops[len(g.ops)-1].ID
			g.emit(&Op{K: "fillto", H: fid, Len: uint64(rng.Intn(4))})
			for j := 0; j < 3+rng.Intn(4); j++ {
				nm := fmt.Sprintf("zzp%d_%d", i, j)
				switch rng.Intn(6) {
				case 0: // index block + data block
					g.emit(&Op{K: "create", H: 0, N: nm, How: 1})
					g.nextPat++
					g.emit(&Op{K: "write", H: g.ops[len(g.ops)-1].ID, Off: 8 * 4096, Len: 100, Cnt: 100, Pat: g.nextPat, How: 2})
				case 1: // one block
					g.emit(&Op{K: "create", H: 0, N: nm, How: 1})
					g.nextPat++
					g.emit(&Op{K: "write", H: g.ops[len(g.ops)-1].ID, Off: 0, Len: 100, Cnt: 100, Pat: g.nextPat, How: 2})
				case 2:
					g.emit(&Op{K: "mkdir", H: 0, N: nm})
				case 3:
					g.emit(&Op{K: "symlink", H: 0, N: nm, Len: 5000 + uint64(rng.Intn(4000)), Pat: 3})
				case 4: // two blocks
					g.emit(&Op{K: "create", H: 0, N: nm, How: 1})
					g.nextPat++
					g.emit(&Op{K: "write", H: g.ops[len(g.ops)-1].ID, Off: 0, Len: 8192, Cnt: 8192, Pat: g.nextPat, How: 2})
				default:
					g.emit(&Op{K: "remove", H: 0, N: fmt.Sprintf("zzp%d_%d", i, rng.Intn(j+1))})
				}
			}
			continue
		}
		if i == drainAt {
			// a directory that grows over several blocks of entries and is then drained
			// down to a few survivors (biased to the slots around block boundaries);
			// removing it, or renaming an empty directory over it, must be refused until
			// the last survivor is gone
			g.emit(&Op{K: "mkdir", H: 0, N: fmt.Sprintf("drain%d", i)})
			did := g.ops[len(g.ops)-1].ID
			cnt := 28 + rng.Intn(45)
			if rng.Chance(0.12) {
				// more than 256 entries: the directory's own blocks go beyond the direct pointers
				cnt = 250 + rng.Intn(40)
			}
			for j := 0; j < cnt; j++ {
				g.emit(&Op{K: []string{"create", "create", "create", "mkdir", "symlink"}[rng.Intn(5)], H: did, N: fmt.Sprintf("e%d", j), How: 1, Len: 5, Pat: 1})
			}
			if rng.Chance(0.4) {
				g.emit(&Op{K: "restart"})
			}
			keep := map[int]bool{}
			for k := rng.Intn(3); k > 0; k-- {
				if rng.Chance(0.7) {
					// entries 32, 33, 64, 65 are the first of a block (after "." and "..")
					keep[[]int{29, 30, 31, 32, 61, 62, 63, 64, 253, 254, 255, 256}[rng.Intn(8+4*(cnt/260))]] = true
				} else {
					keep[rng.Intn(cnt)] = true
				}
			}
			for j := 0; j < cnt; j++ {
				if !keep[j] {
					g.emit(&Op{K: "remove", H: did, N: fmt.Sprintf("e%d", j)})
					g.emit(&Op{K: "rmdir", H: did, N: fmt.Sprintf("e%d", j)})
				}
			}
			if rng.Chance(0.5) {
				g.emit(&Op{K: "mkdir", H: 0, N: fmt.Sprintf("empty%d", i)})
				g.emit(&Op{K: "rename", H: 0, N: fmt.Sprintf("empty%d", i), H2: 0, N2: fmt.Sprintf("drain%d", i)})
			}
			g.emit(&Op{K: "rmdir", H: 0, N: fmt.Sprintf("drain%d", i)})
			g.emit(&Op{K: "readdirplus", H: did, Len: 100000})
			for j := 0; j < cnt; j++ {
				if keep[j] {
					g.emit(&Op{K: "lookup", H: did, N: fmt.Sprintf("e%d", j)})
					g.emit(&Op{K: "remove", H: did, N: fmt.Sprintf("e%d", j)})
					g.emit(&Op{K: "rmdir", H: did, N: fmt.Sprintf("e%d", j)})
				}
			}
			g.emit(&Op{K: "rmdir", H: 0, N: fmt.Sprintf("drain%d", i)})
			continue
		}
		if i == overAt {
			// renames over existing targets of every combination of kinds, inside one
			// parent and between two (a directory over an empty directory, over a
			// non-empty one, a file over a file, mixed kinds, onto itself), then
			// everything below the two parents is removed and the parents themselves:
			// the link counts the renames left behind decide whether they are freed
			par := 0
			if d := g.pickObj(kDIR); d != nil && rng.Chance(0.5) {
				par = g.ref(d)
			}
			g.emit(&Op{K: "mkdir", H: par, N: fmt.Sprintf("ovP%d", i)})
			pid := g.ops[len(g.ops)-1].ID
			g.emit(&Op{K: "mkdir", H: par, N: fmt.Sprintf("ovQ%d", i)})
			qid := g.ops[len(g.ops)-1].ID
			for _, d := range []int{pid, qid} {
				for _, nm := range []string{"A", "B", "C"} {
					g.emit(&Op{K: "mkdir", H: d, N: nm})
					if nm == "C" && rng.Chance(0.5) {
						g.emit(&Op{K: "create", H: g.ops[len(g.ops)-1].ID, N: "x", How: 1})
					}
				}
				for _, nm := range []string{"f", "g"} {
					g.emit(&Op{K: "create", H: d, N: nm, How: 1})
				}
			}
			for j := 0; j < 2+rng.Intn(5); j++ {
				from, to := pid, pid
				if rng.Chance(0.35) {
					to = qid
				}
				if rng.Chance(0.2) {
					from, to = to, from
				}
				names := []string{"A", "A", "B", "C", "f", "g"}
				g.emit(&Op{K: "rename", H: from, N: names[rng.Intn(len(names))], H2: to, N2: names[rng.Intn(len(names))]})
			}
			if rng.Chance(0.3) {
				g.emit(&Op{K: "restart"})
			}
			for _, d := range []int{pid, qid} {
				if o := g.objOfRef(d); o != nil && o.Live {
					g.emitDeleteBelow(o)
				}
			}
			g.emit(&Op{K: "rmdir", H: par, N: fmt.Sprintf("ovP%d", i)})
			g.emit(&Op{K: "rmdir", H: par, N: fmt.Sprintf("ovQ%d", i)})
			continue
		}
		if i == burstAt {
			// a directory full of names at / near the announced maximum length, then a restart
			// (cold name cache) and look-ups, removals and re-creations of some of them
			g.emit(&Op{K: "mkdir", H: 0, N: fmt.Sprintf("burst%d", i)})
			did := g.ops[len(g.ops)-1].ID
			cnt := 18 + rng.Intn(30)
			var nms []string
			for j := 0; j < cnt; j++ {
				nm := fmt.Sprintf("#namemax%+d:%d_", -rng.Intn(3)*rng.Intn(8), j)
				nms = append(nms, nm)
				g.emit(&Op{K: []string{"create", "create", "mkdir", "symlink"}[rng.Intn(4)], H: did, N: nm, How: 1, Len: 9, Pat: 1})
			}
			if rng.Chance(0.7) {
				g.emit(&Op{K: "restart"})
			}
			for j := 0; j < 8; j++ {
				nm := nms[len(nms)-1-rng.Intn(min(6, len(nms)))]
				switch rng.Intn(4) {
				case 0, 1:
					g.emit(&Op{K: "lookup", H: did, N: nm})
				case 2:
					g.emit(&Op{K: "create", H: did, N: nm, How: 1})
				default:
					g.emit(&Op{K: "rename", H: did, N: nm, H2: did, N2: nm + "x"})
				}
			}
			g.emit(&Op{K: "readdirplus", H: did, Len: 100000})
			continue
		}
		if i == bigAt {
			// a file long enough that removing it needs several transactions
			name := "big"
			g.emit(&Op{K: "create", H: 0, N: name, How: 0})
			id := g.ops[len(g.ops)-1].ID
			nb := uint64(p.BigFileBlocks)
			if rng.Chance(0.4) {
				// sizes around the capacity of one transaction (the log holds 511 blocks):
				// freeing "just fits" by the block count but not with the index, bitmap and
				// inode blocks it also dirties
				nb = uint64(488 + rng.Intn(30))
			}
			for off := uint64(0); off < nb*4096; off += 64 * 4096 {
				n := uint64(64 * 4096)
				if off+n > nb*4096 {
					n = nb*4096 - off
				}
				g.nextPat++
				g.emit(&Op{K: "write", H: id, Off: off, Len: n, Cnt: n, Pat: g.nextPat, How: rng.Intn(3)})
			}
			switch rng.Intn(5) {
			case 0, 1:
				g.emit(&Op{K: "remove", H: 0, N: name})
			case 2:
				g.emit(&Op{K: "setattr", H: id, Off: uint64(rng.Intn(3)) * 4096})
				// ... and, while the freeing of the cut-off part may still be going on in the
				// background, the file itself goes away (removed, or replaced by a rename)
				switch rng.Intn(4) {
				case 0:
					g.emit(&Op{K: "remove", H: 0, N: name})
				case 1:
					g.emit(&Op{K: "create", H: 0, N: "bigrepl", How: 0})
					g.emit(&Op{K: "rename", H: 0, N: "bigrepl", H2: 0, N2: name})
				}
			default:
				// cut most of the file off (the freeing goes to the background), then, while
				// it may still be pending, write across the new end of file, grow the file
				// again and read: nothing of the old contents may come back
				cut := uint64(1+rng.Intn(60))*4096 + uint64(rng.Intn(4096))
				g.emit(&Op{K: "setattr", H: id, Off: cut})
				g.nextPat++
				wl := uint64(300 + rng.Intn(9000))
				g.emit(&Op{K: "write", H: id, Off: cut - uint64(1+rng.Intn(200)), Len: wl, Cnt: wl, Pat: g.nextPat, How: rng.Intn(3)})
				g.emit(&Op{K: "setattr", H: id, Off: cut + uint64(20+rng.Intn(100))*4096})
				g.emit(&Op{K: "read", H: id, Off: cut / 4096 * 4096, Len: 65536})
			}
			continue
		}
		if rng.Chance(p.PRestart) {
			g.emit(&Op{K: "restart"})
			continue
		}
		if knobs["adversarial"] == 1 {
			switch rng.Pick([]int{40, 8, 14, 4, 34}) {
			case 0:
				g.emit(g.advOp())
				continue
			case 1:
				nm, _ := g.advName()
				g.emit(&Op{K: []string{"mnt", "umnt", "umntall", "dump", "export", "mountnull"}[rng.Intn(6)], N: nm})
				continue
			case 2:
				if knobs["rpc"] == 1 {
					base := baseMessages()
					g.emit(&Op{K: "rawmsg", Msg: hex.EncodeToString(g.mutateMsg(base[rng.Intn(len(base))]))})
					continue
				}
			case 3:
				if knobs["rpc"] == 1 {
					// transport faults: a frame header that promises more than is sent, a header without
					// the last-fragment bit, an oversized length; the client then drops the connection
					var b []byte
					switch rng.Intn(4) {
					case 0:
						b = []byte{0x80, 0, 0, 100, 1, 2, 3}
					case 1:
						b = []byte{0x00, 0, 0, 8, 0, 0, 0, 1, 0, 0, 0, 0}
					case 2:
						// a length far beyond what follows (kept at 1 MB: the RPC layer of the go-rpcgen
						// dependency allocates whatever the header announces, up to 2 GB, which is outside
						// go-nfsd and outside C11's "well-formed message"; see DESIGN.md)
						b = []byte{0x80, 0x10, 0x00, 0x00, 9, 9}
					default:
						b = []byte{0x80}
					}
					g.emit(&Op{K: "rawbytes", Msg: hex.EncodeToString(b)})
					continue
				}
			}
		}
		g.emit(g.next())
	}
	if knobs["deleteall"] == 1 {
		g.emitDeleteAll()
	}
	spec.Clients = [][]Op{g.ops}
	return spec
}

// emitDeleteAll appends removals of everything the predictive model holds
// (children before parents).
func (g *seqGen) emitDeleteAll() { g.emitDeleteBelow(g.m.Objs[g.m.Root]) }

// emitDeleteBelow appends removals of everything below directory top.
func (g *seqGen) emitDeleteBelow(top *MObj) {
	var walk func(d *MObj)
	walk = func(d *MObj) {
		for _, n := range sortedNames(d.Kids) {
			c := g.m.Objs[d.Kids[n]]
			if c.Kind == kDIR {
				walk(c)
				g.emit(&Op{K: "rmdir", H: g.ref(d), N: n})
			} else {
				g.emit(&Op{K: "remove", H: g.ref(d), N: n})
			}
		}
	}
	walk(top)
}

// ---- execution ----

type seqRun struct {
	spec       *Spec
	res        *Result
	d          *simdisk.Disk
	rig        *Rig
	m          *Model
	tbl        map[int]string
	tblAt      map[int]int // op id -> index of the operation that bound its handle
	states     []*Model // states[j]: reference state after the first j operations
	stable     []bool   // stable[j]: operation j was acknowledged with stable semantics
	viol       *Violation
	verfs      []string
	pending    bool // unstable data not yet known to be durable
	info0      *fsckInfo
	crashed    bool // this history contains a crash (half-freed inodes are then legitimate)
	shrinkOn   bool
	nameMax    uint64
	base       *simdisk.Image
	traceStart int
}

func (x *seqRun) fail(kind, sig, detail string) {
	if x.viol == nil {
		x.viol = &Violation{Property: x.spec.Property, Kind: kind, Sig: sig, Detail: detail}
	}
	simrt.Fail("violation", detail)
}

// sigOf derives a stable signature from a mismatch message: the operation
// and the first words, without run-specific numbers.
func sigOf(prefix, msg string) string {
	var b strings.Builder
	n := 0
	for _, c := range msg {
		if c >= '0' && c <= '9' {
			continue
		}
		b.WriteRune(c)
		n++
		if n > 70 {
			break
		}
	}
	return prefix + ":" + strings.TrimSpace(b.String())
}

// newRig starts a server incarnation for this run (with the RPC transport
// when the run uses it).
func (x *seqRun) newRig(d *simdisk.Disk, unstable bool) *Rig {
	r := startServer(d, unstable, x.spec.knob("icache", 0), x.spec.knob("nshard", 0))
	if x.spec.knob("rpc", 0) != 0 {
		r.Conn = r.Connect()
		x.res.count("rpc_connections", 1)
	}
	return r
}

func (x *seqRun) rpcCheck(in *In, out *Out) {
	if out.RPCErr != "" {
		x.fail("rpc", sigOf("rpc-"+in.K, out.RPCErr), describeIn(in)+": "+out.RPCErr)
	}
}

// fillTo appends single blocks to the file of op.H until the block allocator
// has at most op.Len free blocks (or a write is refused): the requests that
// follow meet a disk with exactly 0-3 free blocks.
func (x *seqRun) fillTo(op *Op) {
	h, ok := x.tbl[op.H]
	if !ok {
		return
	}
	o := x.m.Objs[x.m.ByH[h]]
	if o == nil || !o.Live || o.Kind != kREG {
		return
	}
	blk := patData(0xF111, 0, 4096)
	for n := 0; n < 6000; n++ {
		if x.rig.Srv.VerifFsState().Balloc.NumFree() <= op.Len {
			break
		}
		o = x.m.Objs[x.m.ByH[h]]
		off := (o.Size + 4095) / 4096 * 4096
		out := x.checked(&In{K: "write", Obj: h, Off: off, Count: 4096, Data: blk, How: 2})
		if out.Status != 0 || out.Count == 0 {
			break
		}
	}
	x.res.count("fill_to_few_free_blocks", 1)
}

func (x *seqRun) checked(in *In) *Out {
	out := x.rig.Call(in)
	x.rpcCheck(in, out)
	if out.Crashed {
		simrt.Fail("harness", "server incarnation died during a call")
	}
	if err := x.m.Step(in, out); err != nil {
		x.fail("model-mismatch", sigOf(in.K, err.Error()), err.Error())
	}
	return out
}

func (x *seqRun) quiescentChecks(where string, full bool) {
	simrt.SetTag("quiescent checks " + where)
	simrt.WaitUntil("background shrinker to finish", func() bool { return x.rig.Srv.VerifShrinkerThreads() == 0 })
	simrt.Quiesce()
	info, err := fsck(x.rig, x.nameMax)
	if err != nil {
		fe := err.(*fsckErr)
		x.fail("fsck", "fsck:"+fe.clause, where+": "+err.Error())
	}
	x.res.count("fsck_walks", 1)
	if info.IndirectSeen {
		x.res.count("probe_indirect", 1)
	}
	if info.DindirectSeen {
		x.res.count("probe_double_indirect", 1)
	}
	if err := conservation(info); err != nil {
		fe := err.(*fsckErr)
		x.fail("conservation", "conservation:"+fe.clause, where+": "+err.Error())
	}
	if !x.crashed && info.HalfFreed > 0 {
		x.fail("conservation", "conservation:half-freed", fmt.Sprintf("%s: background freeing has finished but %d free inodes still hold %d blocks (%s)", where, info.HalfFreed, info.HalfFreedBlks, info.HalfFreedWhat))
	}
	// reachable objects = model objects
	if live := len(x.m.LiveObjs()); info.InodesInUse != live {
		x.fail("conservation", "conservation:inode-count", fmt.Sprintf("%s: %d inodes are in use on disk, the reference has %d live objects", where, info.InodesInUse, live))
	}
	if x.spec.knob("coherence", 0) != 0 || full {
		if err := cacheCoherence(x.rig); err != nil {
			fe := err.(*fsckErr)
			x.fail("coherence", "coherence:"+fe.clause, where+": "+err.Error())
		}
		x.res.count("coherence_checks", 1)
	}
	if full {
		ents, err := dumpTree(x.rig, x.m.Objs[x.m.Root].H)
		if err != nil {
			x.fail("model-mismatch", sigOf("dump", err.Error()), where+": "+err.Error())
		}
		if a, b := metaOfDump(ents), x.m.metaSorted(); a != b {
			x.fail("model-mismatch", "dump:tree-differs", where+": the server's tree differs from the reference: "+firstDiff(a, b))
		}
		if err := verifyAgainst(x.rig, x.m, ents, true); err != nil {
			x.fail("model-mismatch", sigOf("verify", err.Error()), where+": "+err.Error())
		}
		x.res.count("full_dumps", 1)
	}
	_ = info
	if x.info0 != nil && len(x.m.LiveObjs()) == 1 && !x.crashed {
		// everything deleted: free space is back (modulo the blocks the root directory keeps)
		used := info.BitmapUsedBlks - info.RootBlocks
		used0 := x.info0.BitmapUsedBlks - x.info0.RootBlocks
		if used != used0 || info.BitmapUsedIno != x.info0.BitmapUsedIno {
			x.fail("conservation", "conservation:not-reclaimed", fmt.Sprintf("%s: everything is deleted but %d data blocks (initially %d) and %d inodes (initially %d) are still marked in use",
				where, used, used0, info.BitmapUsedIno, x.info0.BitmapUsedIno))
		}
		x.res.count("probe_empty_again", 1)
	}
}

func (x *seqRun) restart(i int) {
	simrt.SetTag(fmt.Sprintf("op %d restart", i))
	if x.pending {
		// flush: a clean restart may drop unstable data (that case is a crash
		// point of the trace and is examined there)
		for _, o := range x.m.LiveObjs() {
			if o.Kind == kREG {
				x.checked(&In{K: "commit", Obj: o.H})
				break
			}
		}
		x.pending = false
	}
	simrt.WaitUntil("background shrinker to finish", func() bool { return x.rig.Srv.VerifShrinkerThreads() == 0 })
	if (x.spec.Seed+uint64(i))%2 == 0 {
		// half of the restarts wait until logger and installer are idle; the others
		// happen with committed transactions still only in the log (everything
		// acknowledged is durable there, so the restarted server must not differ)
		simrt.Quiesce()
	} else {
		x.res.count("restarts_with_uninstalled_log", 1)
	}
	before := rawSnapshot(x.rig, x.m)
	// (b) recovery from the image at this instant, in the same simulation
	if x.spec.knob("image_restart", 0) != 0 {
		img := x.d.Current()
		r2 := startServer(simdisk.FromImage(img), x.rig.Unstable, x.spec.knob("icache", 0), x.spec.knob("nshard", 0))
		other := rawSnapshot(r2, x.m)
		if other != before {
			x.fail("restart", "restart:image-differs", fmt.Sprintf("op %d: a server recovered from the disk image at a quiescent point differs from the running server: %s", i, firstDiff(other, before)))
		}
		simrt.KillGroup(r2.Group)
		x.res.count("image_restarts", 1)
	}
	if x.rig.Conn != nil {
		x.rig.Conn.Close()
	}
	x.rig.Shutdown()
	x.rig = x.newRig(x.d, x.rig.Unstable)
	after := rawSnapshot(x.rig, x.m)
	if before != after {
		x.fail("restart", "restart:differs", fmt.Sprintf("op %d: after a clean restart the server differs: %s", i, firstDiff(after, before)))
	}
	x.m.VerfSeen = false
	x.res.count("restarts", 1)
	x.quiescentChecks(fmt.Sprintf("after restart at op %d", i), true)
}

func isMutating(k string) bool {
	switch k {
	case "create", "mkdir", "symlink", "remove", "rmdir", "rename", "setattr", "write":
		return true
	}
	return false
}

func (x *seqRun) main() {
	spec := x.spec
	ops := spec.Clients[0]
	x.rig = x.newRig(x.d, spec.knob("unstable", 1) != 0)
	rootH := rootHandle()
	ra := x.rig.Call(&In{K: "getattr", Obj: rootH})
	if ra.Status != 0 || ra.Attr == nil {
		x.fail("model-mismatch", "root-getattr", "GETATTR of the root handle fails on a fresh file system: "+ra.RPCErr)
	}
	x.m = NewModel(rootH, ra.Attr.FileID)
	x.m.NoSpace = spec.knob("nospace", 0) != 0 || spec.knob("allocfail", 0) != 0
	x.tbl = map[int]string{0: rootH}
	x.tblAt = map[int]int{0: -1}
	x.checked(&In{K: "fsinfo", Obj: rootH})
	x.checked(&In{K: "pathconf", Obj: rootH})
	x.nameMax = x.m.Lim.NameMax
	simrt.Quiesce()
	if info, err := fsck(x.rig, x.nameMax); err != nil {
		x.fail("fsck", "fsck:fresh:"+err.(*fsckErr).clause, "freshly formatted file system: "+err.Error())
	} else {
		x.info0 = info
	}
	x.states = append(x.states, x.m.Clone())
	// Crash points are enumerated from here on: the first format is not a
	// client operation (DESIGN.md section 7, D22). Everything written so far
	// is behind a barrier once the installer is idle.
	x.base = x.d.Current()
	x.traceStart = len(x.d.Trace)
	fsckEvery := int(spec.knob("fsck_every", 0))
	if spec.knob("alloc_lowest", 0) != 0 {
		simrt.AllocLowest = true
		defer func() { simrt.AllocLowest = false }()
	}
	if spec.knob("allocfail", 0) != 0 {
		frng := simrt.Stream(spec.Seed, "faults")
		simrt.FaultHook = func(site string) bool {
			if frng.Chance(0.04) {
				x.res.count("fault_alloc_fail", 1)
				return true
			}
			return false
		}
		defer func() { simrt.FaultHook = nil }()
	}
	for i := range ops {
		op := &ops[i]
		if op.K == "restart" {
			x.restart(i)
			x.states = append(x.states, x.m.Clone())
			x.stable = append(x.stable, false)
			continue
		}
		if op.K == "fillto" {
			x.fillTo(op)
			x.states = append(x.states, x.m.Clone())
			x.stable = append(x.stable, false)
			continue
		}
		if x.special(i, op) {
			x.states = append(x.states, x.states[len(x.states)-1])
			x.stable = append(x.stable, false)
			continue
		}
		in := toIn(op, x.tbl, &x.m.Lim)
		if in == nil {
			x.res.count("ops_skipped", 1)
			x.states = append(x.states, x.states[len(x.states)-1])
			x.stable = append(x.stable, false)
			continue
		}
		simrt.SetTag(fmt.Sprintf("op %d %s", i, describeIn(in)))
		var audit *failAudit
		// (a READ fills holes, so it can fail part-way like a mutating request)
		if spec.knob("fail_audit", 0) != 0 && (isMutating(in.K) || in.K == "read") {
			audit = x.beforeAudit()
		}
		x.d.Mark(i, 0)
		out := x.rig.Call(in)
		x.d.Mark(i, 1)
		if out.Crashed {
			simrt.Fail("harness", "server incarnation died during a call")
		}
		x.rpcCheck(in, out)
		before := x.m.NextID
		if err := x.m.Step(in, out); err != nil {
			x.fail("model-mismatch", sigOf(in.K, err.Error()), fmt.Sprintf("op %d %s: %s", i, describeIn(in), err.Error()))
		}
		if x.m.NextID > before {
			x.tbl[op.ID] = out.H
			x.tblAt[op.ID] = i
		}
		x.res.count("ops", 1)
		if out.Status != 0 {
			x.res.count("ops_failed", 1)
			if out.Status == stSTALE {
				x.res.count("ops_stale", 1)
			}
			if out.Status == stNOSPC {
				x.res.count("ops_nospc", 1)
				// "no space" although the running server's allocators have more free
				// blocks (and inodes) than the request could possibly need: space that is
				// free must be usable (no background freeing is pending at this point)
				if x.rig.Srv.VerifShrinkerThreads() == 0 && spec.knob("allocfail", 0) == 0 && !x.m.otherwiseInvalid(in) {
					st := x.rig.Srv.VerifFsState()
					// upper bound of the blocks the request can need: the pages it touches,
					// the index blocks above them (layout constants of the inode package),
					// and for name-creating requests the growth of the parent directory
					need := uint64(4)
					switch in.K {
					case "write":
						first, last := in.Off/4096, (in.Off+in.Count+4095)/4096
						need = last - first
						if last > inode.NDIRECT {
							need++ // the indirect block, or the double-indirect root
						}
						if last > inode.NDIRECT+inode.NBLKBLK {
							need += (last-first)/inode.NBLKBLK + 2 // second-level index blocks
						}
					case "symlink":
						need = uint64(len(in.Data)+4095)/4096 + 4
					case "setattr":
						need = 3
					}
					if fb, fi := st.Balloc.NumFree(), st.Ialloc.NumFree(); fb >= need && fi >= 1 {
						x.fail("space", "nospc-with-free-space:"+in.K, fmt.Sprintf("op %d %s failed with NFS3ERR_NOSPC although the allocators have %d free blocks and %d free inodes (the request needs at most %d blocks)",
							i, describeIn(in), fb, fi, need))
					}
				}
			}
			if audit != nil {
				x.afterFailAudit(i, in, out, audit)
			}
		}
		if out.Verf != "" {
			if len(x.verfs) == 0 || x.verfs[len(x.verfs)-1] != out.Verf {
				x.verfs = append(x.verfs, out.Verf)
			}
		}
		st := stableAck(in, out)
		if out.Status == 0 && in.K == "write" && out.Count > 0 && !st {
			x.pending = true
			x.res.count("unstable_writes", 1)
		}
		if st {
			x.pending = false
		}
		x.stable = append(x.stable, st)
		x.states = append(x.states, x.m.Clone())
		if x.rig.Srv.VerifShrinkerThreads() > 0 {
			x.res.count("probe_shrinker_active", 1)
		}
		if fsckEvery > 0 && (i+1)%fsckEvery == 0 {
			x.quiescentChecks(fmt.Sprintf("after op %d %s", i, describeIn(in)), false)
			simrt.SetTag("")
		}
	}
	if spec.knob("dead_sweep", 0) != 0 {
		x.deadSweep()
	}
	x.quiescentChecks("at the end of the run", true)
	if spec.knob("readback", 0) != 0 {
		x.res.count("readbacks", 1)
	}
}

// stableAck: the reply acknowledges the operation with stable semantics (it
// must survive every later crash).
func stableAck(in *In, out *Out) bool {
	if out.Status != 0 {
		return false
	}
	switch in.K {
	case "create", "mkdir", "symlink", "remove", "rmdir", "setattr":
		return true
	case "commit":
		// a COMMIT of a sub-range only promises that range (RFC 1813); only
		// whole-file COMMITs are taken as stable points
		return in.Off == 0 && in.Count == 0
	case "rename":
		return !(in.Obj == in.Obj2 && in.Name == in.Name2)
	case "write":
		return out.Count > 0 && out.Commit >= 1
	}
	return false
}

func describeIn(in *In) string {
	s := in.K
	if in.Name != "" {
		s += " " + clip(in.Name)
	}
	if in.Name2 != "" {
		s += " -> " + clip(in.Name2)
	}
	switch in.K {
	case "write":
		s += fmt.Sprintf(" off=%d count=%d datalen=%d how=%d", in.Off, in.Count, len(in.Data), in.How)
	case "read":
		s += fmt.Sprintf(" off=%d count=%d", in.Off, in.Count)
	case "setattr":
		if in.SetSz {
			s += fmt.Sprintf(" size=%d", in.Size)
		}
		if in.How != 0 {
			s += fmt.Sprintf(" guard=%d", in.How)
		}
		if in.SetTm || in.SetAt {
			s += " atime"
		}
		if in.SetTm || in.SetMt {
			s += " mtime"
		}
	}
	return s
}

func (seqEngine) Exec(spec *Spec) *Result {
	res := &Result{}
	if spec.knob("exhaust", 0) != 0 {
		res.Viol = exhaustRun(spec, res)
		res.Nontrivial = true
		res.count("exhaust_runs", 1)
		return res
	}
	disk := spec.Disk
	if disk == 0 {
		disk = smallestDisk() + uint64(spec.knob("data_blocks", 50))
	}
	x := &seqRun{spec: spec, res: res, d: simdisk.New(disk)}
	scfg := simConfig(spec.Sched, 20_000_000)
	scfg.SecondChance = 5_000_000
	sim := simrt.Run(scfg, x.main)
	res.Fingerprint = sim.Fingerprint
	res.SchedPrint = sim.SchedPrint
	res.Steps = sim.Stats.Steps
	res.SimNanos = sim.Stats.SimNanos
	res.count("disk_writes", int64(x.d.Writes))
	res.count("disk_barriers", int64(x.d.Barrs))
	if x.viol != nil {
		res.Viol = x.viol
		return res
	}
	if v := outcomeViolation(spec.Property, sim.Outcome, "main run"); v != nil {
		res.Viol = v
		return res
	}
	res.Nontrivial = len(x.states) > 3
	for _, s := range x.states {
		_ = s
	}
	res.StateHashes = append(res.StateHashes, hashString(x.m.metaSorted()))
	if len(x.verfs) > 1 {
		seen := map[string]bool{}
		for _, v := range x.verfs {
			if seen[v] {
				res.Viol = &Violation{Property: spec.Property, Kind: "verifier", Sig: "verifier:reused", Detail: "two server instances of one run used the same write verifier"}
				return res
			}
			seen[v] = true
		}
	}
	if spec.knob("crash", 0) != 0 {
		if v := x.crashEnumeration(); v != nil {
			v.Property = spec.Property
			res.Viol = v
		}
	}
	return res
}

func hashString(s string) uint64 {
	h := uint64(1469598103934665603)
	for i := 0; i < len(s); i++ {
		h ^= uint64(s[i])
		h *= 1099511628211
	}
	return h
}

var smallestDiskCache uint64

// smallestDisk finds the smallest disk size the server formats (a property of
// the tree under test, found by trying, not a mirrored constant).
func smallestDisk() uint64 {
	if smallestDiskCache != 0 {
		return smallestDiskCache
	}
	for sz := uint64(520); sz < 4000; sz++ {
		ok := false
		d := simdisk.New(sz)
		r := simrt.Run(simrt.Config{Seed: 1, Policy: "fifo", MaxSteps: 2_000_000}, func() {
			rig := startServer(d, true, 0, 257)
			out := rig.Call(&In{K: "create", Obj: rootHandle(), Name: "probe", How: 1})
			if out.Status == 0 {
				w := rig.Call(&In{K: "write", Obj: out.H, Off: 0, Count: 4096, Data: make([]byte, 4096), How: 2})
				ok = w.Status == 0
			}
		})
		if r.Outcome == nil && ok {
			smallestDiskCache = sz
			return sz
		}
	}
	panic("no disk size below 4000 blocks formats")
}
