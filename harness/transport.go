package main

// simnet: an in-memory duplex byte pipe under the simulator's scheduler, given
// to the real rfc1057 server loop. Requests are encoded with the independent
// go-rpcgen/rfc1813 codec (generated from the RFC's .x file) and replies
// decoded with it, so the repository's nfstypes codec and its registration
// tables are cross-checked for every value the workloads produce.

import (
	"encoding/binary"
	"fmt"
	"io"

	"github.com/mit-pdos/go-nfsd/nfstypes"
	"github.com/zeldovich/go-rpcgen/rfc1057"
	r3 "github.com/zeldovich/go-rpcgen/rfc1813"
	"github.com/zeldovich/go-rpcgen/xdr"

	"verifsim/simrt"
)

type byteQueue struct {
	mu     simrt.Mutex
	cond   *simrt.Cond
	buf    []byte
	closed bool
}

func newQueue() *byteQueue {
	q := &byteQueue{}
	q.cond = simrt.NewCond(&q.mu)
	return q
}

func (q *byteQueue) Write(p []byte) (int, error) {
	q.mu.Lock()
	defer q.mu.Unlock()
	if q.closed {
		return 0, io.ErrClosedPipe
	}
	q.buf = append(q.buf, p...)
	q.cond.Broadcast()
	return len(p), nil
}

func (q *byteQueue) Read(p []byte) (int, error) {
	q.mu.Lock()
	defer q.mu.Unlock()
	for len(q.buf) == 0 {
		if q.closed {
			return 0, io.EOF
		}
		q.cond.Wait()
	}
	n := copy(p, q.buf)
	q.buf = q.buf[n:]
	return n, nil
}

func (q *byteQueue) Close() {
	q.mu.Lock()
	q.closed = true
	q.cond.Broadcast()
	q.mu.Unlock()
}

type pipeEnd struct {
	r, w *byteQueue
}

func (p *pipeEnd) Read(b []byte) (int, error)  { return p.r.Read(b) }
func (p *pipeEnd) Write(b []byte) (int, error) { return p.w.Write(b) }

// Conn is one client connection to the server's RPC loop.
type Conn struct {
	cl      *pipeEnd
	sv      *pipeEnd
	xid     uint32
	RunErr  error
	RunDone bool
}

// Connect starts the real RPC server loop of this incarnation on a new pipe.
func (r *Rig) Connect() *Conn {
	a, b := newQueue(), newQueue()
	c := &Conn{cl: &pipeEnd{r: a, w: b}, sv: &pipeEnd{r: b, w: a}, xid: 1000}
	simrt.Scope(r.Group, func() {
		srv := rfc1057.MakeServer()
		srv.RegisterMany(nfstypes.MOUNT_PROGRAM_MOUNT_V3_regs(r.Srv))
		srv.RegisterMany(nfstypes.NFS_PROGRAM_NFS_V3_regs(r.Srv))
		simrt.Go("rpcserver", func() {
			c.RunErr = srv.Run(c.sv)
			c.RunDone = true
			// the server side closes the connection when Run returns
			a.Close()
		})
	})
	return c
}

func (c *Conn) Close() { c.cl.w.Close() }

// SendFrame writes one record-marked frame.
func (c *Conn) SendFrame(payload []byte) {
	var hdr [4]byte
	binary.BigEndian.PutUint32(hdr[:], (1<<31)|uint32(len(payload)))
	c.cl.Write(append(hdr[:], payload...))
}

// SendRaw writes arbitrary bytes (malformed frames).
func (c *Conn) SendRaw(b []byte) { c.cl.Write(b) }

// RecvFrame reads one reply frame; ok=false when the server closed the connection.
func (c *Conn) RecvFrame() ([]byte, bool) {
	var hdr [4]byte
	if _, err := io.ReadFull(c.cl, hdr[:]); err != nil {
		return nil, false
	}
	n := binary.BigEndian.Uint32(hdr[:]) & 0x7fffffff
	buf := make([]byte, n)
	if _, err := io.ReadFull(c.cl, buf); err != nil {
		return nil, false
	}
	return buf, true
}

// TryRecvFrame returns a complete reply frame if one is buffered (non-blocking).
func (c *Conn) TryRecvFrame() ([]byte, bool) {
	q := c.cl.r
	q.mu.Lock()
	defer q.mu.Unlock()
	if len(q.buf) < 4 {
		return nil, false
	}
	n := int(binary.BigEndian.Uint32(q.buf[:4]) & 0x7fffffff)
	if len(q.buf) < 4+n {
		return nil, false
	}
	f := append([]byte{}, q.buf[4:4+n]...)
	q.buf = q.buf[4+n:]
	return f, true
}

// EncodeCall builds a call message.
func EncodeCall(xid, prog, vers, proc uint32, args xdr.Xdrable) []byte {
	var req rfc1057.Rpc_msg
	req.Xid = xid
	req.Body.Mtype = rfc1057.CALL
	req.Body.Cbody.Rpcvers = 2
	req.Body.Cbody.Prog = prog
	req.Body.Cbody.Vers = vers
	req.Body.Cbody.Proc = proc
	wr := xdr.MakeWriter(nil)
	req.Xdr(wr)
	if args != nil {
		args.Xdr(wr)
	}
	if err := wr.Error(); err != nil {
		panic("harness: cannot encode call: " + err.Error())
	}
	return wr.WriteBuf()
}

// rpcStatus: 0 success, else a description of the RPC-level refusal.
func decodeReply(buf []byte, xid uint32, res xdr.Xdrable) (string, error) {
	rd := xdr.MakeReader(buf)
	var msg rfc1057.Rpc_msg
	msg.Xdr(rd)
	if err := rd.Error(); err != nil {
		return "", fmt.Errorf("reply header does not decode: %v", err)
	}
	if msg.Xid != xid {
		return "", fmt.Errorf("reply carries xid %d, the call had %d", msg.Xid, xid)
	}
	if msg.Body.Mtype != rfc1057.REPLY {
		return "", fmt.Errorf("reply has message type %d", msg.Body.Mtype)
	}
	if msg.Body.Rbody.Stat != rfc1057.MSG_ACCEPTED {
		return fmt.Sprintf("denied(%d)", msg.Body.Rbody.Rreply.Stat), nil
	}
	if st := msg.Body.Rbody.Areply.Reply_data.Stat; st != rfc1057.SUCCESS {
		return fmt.Sprintf("accept_stat(%d)", st), nil
	}
	if res != nil {
		res.Xdr(rd)
		if err := rd.Error(); err != nil {
			return "", fmt.Errorf("reply body does not decode with the RFC 1813 codec: %v", err)
		}
	}
	return "", nil
}

func rfh(h string) r3.Nfs_fh3 { return r3.Nfs_fh3{Data: []byte(h)} }

func rattr(a r3.Fattr3) *Attr {
	return &Attr{Type: uint32(a.Ftype), Size: uint64(a.Size), FileID: uint64(a.Fileid)}
}

func rpost(a r3.Post_op_attr) *Attr {
	if !a.Attributes_follow {
		return nil
	}
	return rattr(a.Attributes)
}

func rsattr(in *In) r3.Sattr3 {
	var s r3.Sattr3
	if in.SetSz {
		s.Size = r3.Set_size3{Set_it: true, Size: r3.Size3(in.Size)}
	}
	if in.K == "setattr" && in.How&4 != 0 {
		s.Mode = r3.Set_mode3{Set_it: true, Mode: 0o640}
		s.Uid = r3.Set_uid3{Set_it: true, Uid: 1000}
		s.Gid = r3.Set_gid3{Set_it: true, Gid: 1000}
	}
	if in.SetTm || in.SetMt {
		s.Mtime = r3.Set_mtime{Set_it: r3.SET_TO_SERVER_TIME}
	}
	if in.SetTm || in.SetAt {
		s.Atime = r3.Set_atime{Set_it: r3.SET_TO_CLIENT_TIME, Atime: r3.Nfstime3{Seconds: 77, Nseconds: 5}}
	}
	return s
}

func rdirop(h, name string) r3.Diropargs3 {
	return r3.Diropargs3{Dir: rfh(h), Name: r3.Filename3(name)}
}

// CallRPC performs one NFS request through the transport. A transport-level
// problem is reported in Out.RPCErr.
func (c *Conn) CallRPC(in *In) *Out {
	out := &Out{}
	c.xid++
	xid := c.xid
	do := func(proc uint32, args, res xdr.Xdrable) bool {
		c.SendFrame(EncodeCall(xid, r3.NFS_PROGRAM, r3.NFS_V3, proc, args))
		buf, ok := c.RecvFrame()
		if !ok {
			out.RPCErr = "connection closed by the server without a reply"
			return false
		}
		refusal, err := decodeReply(buf, xid, res)
		if err != nil {
			out.RPCErr = err.Error()
			return false
		}
		if refusal != "" {
			out.RPCErr = "rpc refusal " + refusal
			return false
		}
		return true
	}
	switch in.K {
	case "null":
		do(r3.NFSPROC3_NULL, nil, nil)
	case "getattr":
		var res r3.GETATTR3res
		if do(r3.NFSPROC3_GETATTR, &r3.GETATTR3args{Object: rfh(in.Obj)}, &res) {
			out.Status = uint32(res.Status)
			if res.Status == 0 {
				out.Attr = rattr(res.Resok.Obj_attributes)
			}
		}
	case "setattr":
		var res r3.SETATTR3res
		args := &r3.SETATTR3args{Object: rfh(in.Obj), New_attributes: rsattr(in)}
		if in.How&3 == 1 {
			args.Guard = r3.Sattrguard3{Check: true, Obj_ctime: r3.Nfstime3{Seconds: 77, Nseconds: 5}}
		} else if in.How&3 == 2 {
			args.Guard = r3.Sattrguard3{Check: true}
		}
		if do(r3.NFSPROC3_SETATTR, args, &res) {
			out.Status = uint32(res.Status)
			if res.Status == 0 {
				out.Attr = rpost(res.Resok.Obj_wcc.After)
			}
		}
	case "lookup":
		var res r3.LOOKUP3res
		if do(r3.NFSPROC3_LOOKUP, &r3.LOOKUP3args{What: rdirop(in.Obj, in.Name)}, &res) {
			out.Status = uint32(res.Status)
			if res.Status == 0 {
				out.H, out.HasH = string(res.Resok.Object.Data), true
				out.Attr = rpost(res.Resok.Obj_attributes)
			}
		}
	case "access":
		var res r3.ACCESS3res
		if do(r3.NFSPROC3_ACCESS, &r3.ACCESS3args{Object: rfh(in.Obj), Access: 0x3f}, &res) {
			out.Status = uint32(res.Status)
			if res.Status == 0 {
				out.Attr = rpost(res.Resok.Obj_attributes)
			}
		}
	case "readlink":
		var res r3.READLINK3res
		if do(r3.NFSPROC3_READLINK, &r3.READLINK3args{Symlink: rfh(in.Obj)}, &res) {
			out.Status = uint32(res.Status)
			out.Data = []byte(res.Resok.Data)
		}
	case "read":
		var res r3.READ3res
		if do(r3.NFSPROC3_READ, &r3.READ3args{File: rfh(in.Obj), Offset: r3.Offset3(in.Off), Count: r3.Count3(in.Count)}, &res) {
			out.Status = uint32(res.Status)
			out.Data = res.Resok.Data
			out.Count = uint64(res.Resok.Count)
			out.Eof = res.Resok.Eof
		}
	case "write":
		var res r3.WRITE3res
		if do(r3.NFSPROC3_WRITE, &r3.WRITE3args{File: rfh(in.Obj), Offset: r3.Offset3(in.Off), Count: r3.Count3(in.Count),
			Stable: r3.Stable_how(in.How), Data: in.Data}, &res) {
			out.Status = uint32(res.Status)
			if res.Status == 0 {
				out.Count = uint64(res.Resok.Count)
				out.Commit = int(res.Resok.Committed)
				out.Verf = string(res.Resok.Verf[:])
				out.Attr = rpost(res.Resok.File_wcc.After)
			}
		}
	case "create", "mkdir", "symlink":
		var st r3.Nfsstat3
		var obj r3.Post_op_fh3
		var at r3.Post_op_attr
		ok := false
		switch in.K {
		case "create":
			var res r3.CREATE3res
			ok = do(r3.NFSPROC3_CREATE, &r3.CREATE3args{Where: rdirop(in.Obj, in.Name), How: r3.Createhow3{Mode: r3.Createmode3(in.How)}}, &res)
			st, obj, at = res.Status, res.Resok.Obj, res.Resok.Obj_attributes
		case "mkdir":
			var res r3.MKDIR3res
			ok = do(r3.NFSPROC3_MKDIR, &r3.MKDIR3args{Where: rdirop(in.Obj, in.Name)}, &res)
			st, obj, at = res.Status, res.Resok.Obj, res.Resok.Obj_attributes
		default:
			var res r3.SYMLINK3res
			ok = do(r3.NFSPROC3_SYMLINK, &r3.SYMLINK3args{Where: rdirop(in.Obj, in.Name), Symlink: r3.Symlinkdata3{Symlink_data: r3.Nfspath3(string(in.Data))}}, &res)
			st, obj, at = res.Status, res.Resok.Obj, res.Resok.Obj_attributes
		}
		if ok {
			out.Status = uint32(st)
			if st == 0 {
				out.HasH = obj.Handle_follows
				out.H = string(obj.Handle.Data)
				out.Attr = rpost(at)
			}
		}
	case "mknod":
		var res r3.MKNOD3res
		if do(r3.NFSPROC3_MKNOD, &r3.MKNOD3args{Where: rdirop(in.Obj, in.Name), What: r3.Mknoddata3{Ftype: r3.NF3FIFO}}, &res) {
			out.Status = uint32(res.Status)
		}
	case "remove":
		var res r3.REMOVE3res
		if do(r3.NFSPROC3_REMOVE, &r3.REMOVE3args{Object: rdirop(in.Obj, in.Name)}, &res) {
			out.Status = uint32(res.Status)
		}
	case "rmdir":
		var res r3.RMDIR3res
		if do(r3.NFSPROC3_RMDIR, &r3.RMDIR3args{Object: rdirop(in.Obj, in.Name)}, &res) {
			out.Status = uint32(res.Status)
		}
	case "rename":
		var res r3.RENAME3res
		if do(r3.NFSPROC3_RENAME, &r3.RENAME3args{From: rdirop(in.Obj, in.Name), To: rdirop(in.Obj2, in.Name2)}, &res) {
			out.Status = uint32(res.Status)
		}
	case "link":
		var res r3.LINK3res
		if do(r3.NFSPROC3_LINK, &r3.LINK3args{File: rfh(in.Obj), Link: rdirop(in.Obj2, in.Name)}, &res) {
			out.Status = uint32(res.Status)
		}
	case "readdir":
		var res r3.READDIR3res
		if do(r3.NFSPROC3_READDIR, &r3.READDIR3args{Dir: rfh(in.Obj), Cookie: r3.Cookie3(in.Cookie), Count: r3.Count3(in.Count)}, &res) {
			out.Status = uint32(res.Status)
			if res.Status == 0 {
				for e := res.Resok.Reply.Entries; e != nil; e = e.Nextentry {
					out.Ents = append(out.Ents, DirEnt{Name: string(e.Name), FileID: uint64(e.Fileid), Cookie: uint64(e.Cookie)})
				}
				out.Eof = res.Resok.Reply.Eof
			}
		}
	case "readdirplus":
		var res r3.READDIRPLUS3res
		if do(r3.NFSPROC3_READDIRPLUS, &r3.READDIRPLUS3args{Dir: rfh(in.Obj), Cookie: r3.Cookie3(in.Cookie), Dircount: r3.Count3(in.Dircnt), Maxcount: r3.Count3(in.Maxcnt)}, &res) {
			out.Status = uint32(res.Status)
			if res.Status == 0 {
				for e := res.Resok.Reply.Entries; e != nil; e = e.Nextentry {
					de := DirEnt{Name: string(e.Name), FileID: uint64(e.Fileid), Cookie: uint64(e.Cookie)}
					if e.Name_handle.Handle_follows {
						de.HasH, de.H = true, string(e.Name_handle.Handle.Data)
					}
					de.Attr = rpost(e.Name_attributes)
					out.Ents = append(out.Ents, de)
				}
				out.Eof = res.Resok.Reply.Eof
			}
		}
	case "fsstat":
		var res r3.FSSTAT3res
		if do(r3.NFSPROC3_FSSTAT, &r3.FSSTAT3args{Fsroot: rfh(in.Obj)}, &res) {
			out.Status = uint32(res.Status)
		}
	case "fsinfo":
		var res r3.FSINFO3res
		if do(r3.NFSPROC3_FSINFO, &r3.FSINFO3args{Fsroot: rfh(in.Obj)}, &res) {
			out.Status = uint32(res.Status)
			out.Lim.MaxFileSize = uint64(res.Resok.Maxfilesize)
			out.Lim.WtMax = uint64(res.Resok.Wtmax)
			out.Lim.RtMax = uint64(res.Resok.Rtmax)
		}
	case "pathconf":
		var res r3.PATHCONF3res
		if do(r3.NFSPROC3_PATHCONF, &r3.PATHCONF3args{Object: rfh(in.Obj)}, &res) {
			out.Status = uint32(res.Status)
			out.Lim.NameMax = uint64(res.Resok.Name_max)
		}
	case "commit":
		var res r3.COMMIT3res
		if do(r3.NFSPROC3_COMMIT, &r3.COMMIT3args{File: rfh(in.Obj), Offset: r3.Offset3(in.Off), Count: r3.Count3(in.Count)}, &res) {
			out.Status = uint32(res.Status)
			if res.Status == 0 {
				out.Verf = string(res.Resok.Verf[:])
			}
		}
	default:
		panic("transport: unknown op " + in.K)
	}
	return out
}
