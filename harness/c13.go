package main

import (
	"fmt"
	"sort"
	"strings"

	"verifsim/simdisk"
	"verifsim/simrt"
)

// C13: directory enumeration is complete, duplicate-free and terminates.
//
// A directory is built (optionally with freed slots in the middle), then
// enumerated page by page with READDIR / READDIRPLUS under many size limits,
// always passing back the cookie of the last entry received. In the
// concurrent variant other clients add and remove names between and during
// the calls, under a seeded schedule.

type c13Engine struct{}

func init() { register("c13", c13Engine{}, "C13") }

var c13Limits = []uint64{0, 1, 64, 100, 127, 128, 129, 160, 200, 256, 300, 512, 1000, 4096, 8192, 100000}

func (c13Engine) Gen(prop string, seed uint64, tier string) *Spec {
	rng := simrt.Stream(seed, "workload")
	spec := &Spec{Property: prop, Engine: "c13", Seed: seed, Tier: tier, Disk: 6000,
		Sched: genSched(simrt.Stream(seed, "schedcfg"), seed, true),
		Knobs: map[string]int64{"nshard": 257, "unstable": int64(rng.Intn(2))}}
	n := []int{0, 1, 2, 5, 30, 31, 32, 33, 64, 100, 300}[rng.Intn(11)]
	if tier != "thorough" && n > 100 {
		n = 100
	}
	conc := rng.Chance(0.4)
	if conc {
		spec.Knobs["concurrent"] = 1
		if n > 40 {
			n = 40
		}
	}
	// client 0: the directory's build script
	var build []Op
	names := []string{}
	for i := 0; i < n; i++ {
		l := 1 + rng.Intn(12)
		if rng.Chance(0.1) {
			l = 100 + rng.Intn(12)
		}
		nm := fmt.Sprintf("e%d-", i) + strings.Repeat("x", l)
		if len(nm) > 111 {
			nm = nm[:111]
		}
		kind := []string{"create", "create", "mkdir", "symlink"}[rng.Intn(4)]
		build = append(build, Op{K: kind, N: nm})
		names = append(names, nm)
	}
	// freed slots in the middle
	for i := range names {
		if rng.Chance(0.25) {
			build = append(build, Op{K: "rm", N: names[i]})
		}
	}
	if rng.Chance(0.3) && n > 0 {
		build = append(build, Op{K: "create", N: "late-" + strings.Repeat("y", rng.Intn(20))})
	}
	spec.Clients = append(spec.Clients, build)
	// client 1: enumerations
	var enums []Op
	ne := 3 + rng.Intn(5)
	for i := 0; i < ne; i++ {
		op := Op{K: []string{"readdir", "readdirplus"}[rng.Intn(2)]}
		op.Len = c13Limits[rng.Intn(len(c13Limits))]
		op.Cnt = c13Limits[rng.Intn(len(c13Limits))] // dircount for readdirplus
		if rng.Chance(0.5) {
			op.Cnt = op.Len
		}
		enums = append(enums, op)
	}
	spec.Clients = append(spec.Clients, enums)
	if conc {
		// mutators: add and remove names while the enumerations run
		for c := 0; c < 1+rng.Intn(2); c++ {
			var ops []Op
			for i := 0; i < 4+rng.Intn(8); i++ {
				if rng.Chance(0.5) && len(names) > 0 {
					ops = append(ops, Op{K: "rm", N: names[rng.Intn(len(names))]})
				} else {
					nm := fmt.Sprintf("m%d-%d", c, rng.Intn(6))
					if rng.Chance(0.5) {
						ops = append(ops, Op{K: "create", N: nm})
					} else {
						ops = append(ops, Op{K: "rm", N: nm})
					}
				}
			}
			spec.Clients = append(spec.Clients, ops)
		}
	}
	return spec
}

type c13Event struct {
	name      string
	add       bool
	call, ret int64 // ret = max while in flight
	void      bool  // completed without effect (failed)
}

type c13Run struct {
	spec   *Spec
	res    *Result
	rig    *Rig
	viol   *Violation
	seq    int64
	events []*c13Event
	objs   map[string][]c13Obj // every object a name ever denoted
}

type c13Obj struct {
	h      string
	fileid uint64
	kind   uint32
}

func (x *c13Run) fail(sig, detail string) {
	if x.viol == nil {
		x.viol = &Violation{Property: x.spec.Property, Kind: "enumeration", Sig: sig, Detail: detail}
	}
	simrt.Fail("violation", detail)
}

func (x *c13Run) mutate(dirH string, op *Op) {
	x.seq++
	add := op.K != "rm"
	// registered before the call: an operation in flight may already have
	// taken effect when an enumeration looks at the directory
	ev := &c13Event{name: op.N, add: add, call: x.seq, ret: 1 << 62}
	x.events = append(x.events, ev)
	var out *Out
	if add {
		in := &In{K: op.K, Obj: dirH, Name: op.N, How: 1}
		if op.K == "symlink" {
			in.Data = []byte("t")
		}
		out = x.rig.Call(in)
	} else {
		out = x.rig.Call(&In{K: "remove", Obj: dirH, Name: op.N})
		if out.Status != 0 {
			out = x.rig.Call(&In{K: "rmdir", Obj: dirH, Name: op.N})
		}
	}
	x.seq++
	ev.ret = x.seq
	if out.Status != 0 {
		ev.void = true
	} else if add && out.Attr != nil {
		x.objs[op.N] = append(x.objs[op.N], c13Obj{h: out.H, fileid: out.Attr.FileID, kind: out.Attr.Type})
	}
}

// presence of a name over an interval of the global event counter
func (x *c13Run) presence(name string, from, to int64) (throughout, ever bool, recreated bool) {
	// replay the successful mutations of this name in order of completion
	var evs []*c13Event
	for _, e := range x.events {
		if e.name == name && !e.void {
			evs = append(evs, e)
		}
	}
	sort.Slice(evs, func(i, j int) bool { return evs[i].ret < evs[j].ret })
	presentBefore := false // definitely present at `from`
	possibly := false
	throughout = true
	adds := 0
	for _, e := range evs {
		switch {
		case e.ret < from:
			presentBefore = e.add
		case e.call > to:
			// after the enumeration
		default:
			// overlaps the enumeration
			throughout = false
			possibly = true
			if e.add {
				adds++
			}
		}
	}
	if !presentBefore {
		throughout = false
	}
	ever = presentBefore || possibly
	return throughout, ever, adds > 0
}

func (x *c13Run) enumerate(dirH string, op *Op, idx int) {
	start := x.seq + 1
	x.seq++
	cookie := uint64(0)
	seen := map[string]int{}
	calls := 0
	maxCalls := 0
	for {
		calls++
		in := &In{K: op.K, Obj: dirH, Cookie: cookie, Count: op.Len, Dircnt: op.Cnt, Maxcnt: op.Len}
		simrt.SetTag(fmt.Sprintf("enumeration %d call %d %s cookie=%d limits=%d/%d", idx, calls, op.K, cookie, op.Cnt, op.Len))
		out := x.rig.Call(in)
		if out.Status != 0 {
			if calls == 1 && (op.Len < 512 || (op.K == "readdirplus" && op.Cnt < 512)) {
				x.res.count("too_small_refused", 1)
				return // a limit below one entry may be refused
			}
			x.fail("enum:error", fmt.Sprintf("enumeration %d (%s, limits %d/%d): call %d with cookie %d failed with status %d", idx, op.K, op.Cnt, op.Len, calls, cookie, out.Status))
		}
		if !out.Eof && len(out.Ents) == 0 {
			x.fail("enum:no-progress", fmt.Sprintf("enumeration %d (%s, limits %d/%d): call %d with cookie %d returned neither an entry nor end-of-directory", idx, op.K, op.Cnt, op.Len, calls, cookie))
		}
		for _, e := range out.Ents {
			seen[e.Name]++
			// file ids, handles and attributes are those of the named object
			if cands, ok := x.objs[e.Name]; ok {
				match := false
				for _, c := range cands {
					if c.fileid == e.FileID && (!e.HasH || e.H == c.h) && (e.Attr == nil || (e.Attr.Type == c.kind && e.Attr.FileID == c.fileid)) {
						match = true
					}
				}
				for _, ev := range x.events {
					if ev.name == e.Name && ev.add && ev.ret == 1<<62 {
						match = true // being (re-)created right now: its identity is not known yet
					}
				}
				if !match {
					x.fail("enum:wrong-object", fmt.Sprintf("enumeration %d (%s): entry %q has file id %d / handle %x, which is not an object that name denoted", idx, op.K, clip(e.Name), e.FileID, e.H))
				}
			}
			if e.Cookie == cookie && !out.Eof && e.Name == out.Ents[len(out.Ents)-1].Name {
				x.fail("enum:no-progress", fmt.Sprintf("enumeration %d (%s, limits %d/%d): call %d was given cookie %d and its last entry %q carries the same cookie: the next call repeats this one for ever",
					idx, op.K, op.Cnt, op.Len, calls, cookie, clip(e.Name)))
			}
		}
		if len(out.Ents) > 0 {
			cookie = out.Ents[len(out.Ents)-1].Cookie
		}
		if out.Eof {
			break
		}
		if maxCalls == 0 {
			maxCalls = 0
		}
		if calls > len(seen)+len(x.events)+400 {
			x.fail("enum:no-end", fmt.Sprintf("enumeration %d (%s, limits %d/%d) has not reached end-of-directory after %d calls (%d names seen)", idx, op.K, op.Cnt, op.Len, calls, len(seen)))
		}
	}
	x.seq++
	end := x.seq
	x.res.count("enumerations", 1)
	x.res.count("enumeration_calls", int64(calls))
	// rules
	all := map[string]bool{".": true, "..": true}
	for _, e := range x.events {
		all[e.name] = true
	}
	for name := range seen {
		all[name] = true
	}
	names := make([]string, 0, len(all))
	for n := range all {
		names = append(names, n)
	}
	sort.Strings(names)
	for _, name := range names {
		cnt := seen[name]
		if name == "." || name == ".." {
			if cnt != 1 {
				x.fail("enum:dots", fmt.Sprintf("enumeration %d (%s, limits %d/%d) returned %q %d times", idx, op.K, op.Cnt, op.Len, name, cnt))
			}
			continue
		}
		throughout, ever, recreated := x.presence(name, start, end)
		if throughout && cnt != 1 {
			x.fail("enum:missing-or-dup", fmt.Sprintf("enumeration %d (%s, limits %d/%d, %d calls): %q was in the directory throughout but was returned %d times", idx, op.K, op.Cnt, op.Len, calls, clip(name), cnt))
		}
		if cnt > 0 && !ever {
			x.fail("enum:phantom", fmt.Sprintf("enumeration %d (%s): %q was returned but was not in the directory at any time during the enumeration", idx, op.K, clip(name)))
		}
		if cnt > 1 && !recreated {
			x.fail("enum:dup", fmt.Sprintf("enumeration %d (%s, limits %d/%d): %q was returned %d times although it was not re-created during the enumeration", idx, op.K, op.Cnt, op.Len, clip(name), cnt))
		}
	}
}

func (c13Engine) Exec(spec *Spec) *Result {
	res := &Result{}
	x := &c13Run{spec: spec, res: res, objs: map[string][]c13Obj{}}
	d := simdisk.New(spec.Disk)
	sim := simrt.Run(simConfig(spec.Sched, 30_000_000), func() {
		x.rig = startServer(d, spec.knob("unstable", 1) != 0, 0, spec.knob("nshard", 0))
		root := rootHandle()
		dr := x.rig.Call(&In{K: "mkdir", Obj: root, Name: "dir"})
		if dr.Status != 0 {
			simrt.Fail("harness", "mkdir failed")
		}
		dirH := dr.H
		x.objs["."] = []c13Obj{{h: dr.H, fileid: dr.Attr.FileID, kind: kDIR}}
		if ra := x.rig.Call(&In{K: "getattr", Obj: root}); ra.Attr != nil {
			x.objs[".."] = []c13Obj{{h: root, fileid: ra.Attr.FileID, kind: kDIR}}
		}
		for i := range spec.Clients[0] {
			x.mutate(dirH, &spec.Clients[0][i])
		}
		switch spec.Seed % 4 {
		case 1:
			// cold name cache: the enumerations and mutations that follow work on a
			// cache rebuilt from the disk
			x.rig.Shutdown()
			x.rig = startServer(d, spec.knob("unstable", 1) != 0, 0, spec.knob("nshard", 0))
			res.count("cold_name_cache", 1)
		case 2:
			// a refused request that had modified the directory drops its cached copy
			x.rig.Call(&In{K: "create", Obj: dirH, Name: strings.Repeat("L", 300), How: 1})
			res.count("cold_name_cache", 1)
		}
		if spec.knob("concurrent", 0) == 0 {
			// sequential: also validate every page against the reference model via the dump
			for i := range spec.Clients[1] {
				x.enumerate(dirH, &spec.Clients[1][i], i)
			}
			return
		}
		var wg simrt.WaitGroup
		wg.Add(1)
		simrt.Go("enumerator", func() {
			defer wg.Done()
			for i := range spec.Clients[1] {
				x.enumerate(dirH, &spec.Clients[1][i], i)
			}
		})
		for c := 2; c < len(spec.Clients); c++ {
			c := c
			wg.Add(1)
			simrt.Go(fmt.Sprintf("mutator%d", c), func() {
				defer wg.Done()
				for i := range spec.Clients[c] {
					simrt.SetTag(fmt.Sprintf("mutator %d op %d %s %s", c, i, spec.Clients[c][i].K, clip(spec.Clients[c][i].N)))
					x.mutate(dirH, &spec.Clients[c][i])
				}
			})
		}
		wg.Wait()
	})
	res.Fingerprint = sim.Fingerprint
	res.SchedPrint = sim.SchedPrint
	res.Steps = sim.Stats.Steps
	res.SimNanos = sim.Stats.SimNanos
	if x.viol != nil {
		res.Viol = x.viol
		return res
	}
	if v := outcomeViolation(spec.Property, sim.Outcome, "enumeration run"); v != nil {
		res.Viol = v
		return res
	}
	res.Nontrivial = len(spec.Clients[0]) > 0
	res.StateHashes = append(res.StateHashes, sim.Fingerprint)
	return res
}
