// vworker: one worker process of the go-nfsd simulation harness.
//
//	vworker run    -prop C18 -tier quick -seed N -count K -budget S   (JSON lines on stdout)
//	vworker replay -file F                                            (exit 0 = reproduced nothing, 1 = violation reproduced)
//	vworker shrink -file F -out G
//	vworker selftest -prop C18 -seed N -count K                       (prints seed fingerprint per run)
package main

import (
	"encoding/json"
	"flag"
	"fmt"
	"os"
	"regexp"
	"runtime"
	"runtime/debug"
	"runtime/pprof"
	"sort"
	"strings"
	"time"

	"verifsim/simrt"
)

// Op is one generated operation; the fields used depend on the engine.
type Op struct {
	K    string   `json:"k"`
	ID   int      `json:"id,omitempty"` // stable id; created objects are referenced by the id of the creating op
	H    int      `json:"h,omitempty"`  // handle reference (object index; 0 = root)
	H2   int      `json:"h2,omitempty"` // second handle reference
	N    string   `json:"n,omitempty"`
	N2   string   `json:"n2,omitempty"`
	Off  uint64   `json:"off,omitempty"`
	Len  uint64   `json:"len,omitempty"`
	Cnt  uint64   `json:"cnt,omitempty"` // count field when it differs from Len
	Pat  uint64   `json:"pat,omitempty"` // pattern id of the data written
	How  int      `json:"how,omitempty"`
	Keys []uint64 `json:"keys,omitempty"`
	Vals []uint64 `json:"vals,omitempty"`
	Raw  string   `json:"raw,omitempty"` // "maxfile"/"wtmax": value relative to an announced limit
	HX   string   `json:"hx,omitempty"`  // hex: explicit handle bytes (adversarial)
	HX2  string   `json:"hx2,omitempty"`
	NX   string   `json:"nx,omitempty"`  // hex: explicit name bytes (adversarial)
	Msg  string   `json:"msg,omitempty"` // hex: raw bytes sent on the transport
	X    int64    `json:"x,omitempty"`
	Y    int64    `json:"y,omitempty"`
}

type SchedCfg struct {
	Policy   string   `json:"policy"`
	SwitchP  float64  `json:"switch_p,omitempty"`
	PCTDepth int      `json:"pct_depth,omitempty"`
	Starve   []string `json:"starve,omitempty"` // "name:weight"
	Seed     uint64   `json:"seed"`
	Clock    int      `json:"clock,omitempty"`
}

// Spec is one fully explicit simulated run: replaying it is a pure function
// of this structure and the code.
type Spec struct {
	Property string           `json:"property"`
	Engine   string           `json:"engine"`
	Seed     uint64           `json:"seed"`
	Tier     string           `json:"tier"`
	Sched    SchedCfg         `json:"sched"`
	Disk     uint64           `json:"disk_blocks,omitempty"`
	Knobs    map[string]int64 `json:"knobs,omitempty"`
	Clients  [][]Op           `json:"clients"`
	// crash selection for replays: examine only this crash point
	Crash     *CrashSel  `json:"crash,omitempty"`
	Violation *Violation `json:"violation,omitempty"`
}

type CrashSel struct {
	Event int       `json:"event"`          // crash before trace event #Event
	Mode  string    `json:"mode"`           // all | mask
	Mask  string    `json:"mask,omitempty"` // for mode mask: '1' = the k-th un-barriered write persisted
	Depth int       `json:"depth,omitempty"`
	Next  *CrashSel `json:"next,omitempty"` // nested crash during recovery
}

type Violation struct {
	Property string `json:"property"`
	Kind     string `json:"kind"`
	Sig      string `json:"signature"`
	Detail   string `json:"detail"`
	Stack    string `json:"stack,omitempty"`
}

func (s *Spec) knob(name string, def int64) int64 {
	if v, ok := s.Knobs[name]; ok {
		return v
	}
	return def
}

// Result of executing one Spec.
type Result struct {
	Viol        *Violation
	Fingerprint uint64
	SchedPrint  uint64
	Counters    map[string]int64 // fault kinds fired, probes hit, images examined …
	Steps       uint64
	SimNanos    int64
	Nontrivial  bool
	StateHashes []uint64 // distinct states / images reached (for the coverage measure)
	Inconcl     int
}

func (r *Result) count(k string, n int64) {
	if r.Counters == nil {
		r.Counters = map[string]int64{}
	}
	r.Counters[k] += n
}

type Engine interface {
	Gen(prop string, seed uint64, tier string) *Spec
	Exec(spec *Spec) *Result
}

var engines = map[string]Engine{}

// which engine decides which property
var propEngine = map[string]string{}

func register(name string, e Engine, props ...string) {
	engines[name] = e
	for _, p := range props {
		propEngine[p] = name
	}
}

type Summary struct {
	Type         string            `json:"type"`
	Property     string            `json:"property"`
	Runs         int               `json:"runs"`
	Nontrivial   int               `json:"nontrivial"`
	Counters     map[string]int64  `json:"counters"`
	Fingerprints []uint64          `json:"fingerprints"`
	SchedPrints  []uint64          `json:"sched_prints"`
	States       []uint64          `json:"states"`
	Steps        uint64            `json:"steps"`
	SimNanos     int64             `json:"sim_nanos"`
	WallS        float64           `json:"wall_s"`
	Samples      []json.RawMessage `json:"samples"`
	Inconcl      int               `json:"inconclusive"`
	FirstSeed    uint64            `json:"first_seed"`
	LastSeed     uint64            `json:"last_seed"`
}

func emit(v interface{}) {
	b, err := json.Marshal(v)
	if err != nil {
		panic(err)
	}
	os.Stdout.Write(append(b, '\n'))
}

func main() {
	if len(os.Args) < 2 {
		fmt.Fprintln(os.Stderr, "usage: vworker run|replay|shrink|selftest ...")
		os.Exit(2)
	}
	debug.SetGCPercent(200)
	cmd := os.Args[1]
	fs := flag.NewFlagSet(cmd, flag.ExitOnError)
	prop := fs.String("prop", "", "property id")
	tier := fs.String("tier", "quick", "quick|thorough")
	seed := fs.Uint64("seed", 1, "first run seed")
	count := fs.Int("count", 1<<30, "max runs")
	budget := fs.Float64("budget", 30, "wall-clock budget in seconds")
	file := fs.String("file", "", "replay file")
	out := fs.String("out", "", "output file")
	stride := fs.Uint64("stride", 1, "seed stride")
	progress := fs.String("progress", "", "progress journal file (for the watchdog)")
	known := fs.String("known", "", "regular expression of violation signatures that are open known findings")
	fs.Parse(os.Args[2:])
	if hp := os.Getenv("VERIF_HEAPPROFILE"); hp != "" {
		// development aid: one heap profile when the heap first exceeds 1.5 GB
		go func() {
			for {
				time.Sleep(200 * time.Millisecond)
				var ms runtime.MemStats
				runtime.ReadMemStats(&ms)
				if ms.HeapAlloc > 1500<<20 {
					f, _ := os.Create(hp)
					pprof.WriteHeapProfile(f)
					f.Close()
					return
				}
			}
		}()
	}
	if pf := os.Getenv("VERIF_CPUPROFILE"); pf != "" {
		// development aid: CPU profile of a worker (os.Exit skips deferred calls,
		// so the profile is stopped explicitly)
		f, _ := os.Create(pf)
		pprof.StartCPUProfile(f)
		code := 0
		switch cmd {
		case "run":
			code = cmdRun(*prop, *tier, *seed, *stride, *count, *budget, *progress, *known)
		case "replay":
			code = cmdReplay(*file)
		}
		pprof.StopCPUProfile()
		f.Close()
		os.Exit(code)
	}
	switch cmd {
	case "run":
		os.Exit(cmdRun(*prop, *tier, *seed, *stride, *count, *budget, *progress, *known))
	case "replay":
		os.Exit(cmdReplay(*file))
	case "shrink":
		os.Exit(cmdShrink(*file, *out, *budget))
	case "selftest":
		os.Exit(cmdSelftest(*prop, *tier, *seed, *count))
	case "probe":
		os.Exit(cmdProbe(*file))
	case "gen":
		emit(engineForSeed(*prop, *seed).Gen(*prop, *seed, *tier))
		os.Exit(0)
	}
	fmt.Fprintln(os.Stderr, "unknown command", cmd)
	os.Exit(2)
}

func engineFor(prop string) Engine {
	n, ok := propEngine[prop]
	if !ok {
		fmt.Fprintf(os.Stderr, "vworker: no engine for property %q\n", prop)
		os.Exit(2)
	}
	return engines[n]
}

// engineForSeed: some properties are examined by a second engine on a fixed
// share of the seeds.
func engineForSeed(prop string, s uint64) Engine {
	switch {
	case prop == "C11" && s%8 == 7:
		// C11 also covers the simple server: every 8th run drives it with the
		// boundary-dense / malformed-handle request generator of C17
		return engines["simple"]
	case (prop == "C01" && s%4 == 3) || (prop == "C07" && s%4 >= 2):
		// (C07: half of the seeds - what a COMMIT promises is decided in the group
		// commit, with other clients' writes and COMMITs in flight)
		// C01 under concurrency: several clients, crash points inside the group
		// commits, linearizability of acknowledged + in-flight + post-crash history
		return engines["conc"]
	}
	return engineFor(prop)
}

func cmdRun(prop, tier string, seed, stride uint64, count int, budget float64, progress string, known string) int {
	engineFor(prop)
	var knownRe *regexp.Regexp
	if known != "" {
		knownRe = regexp.MustCompile(known)
	}
	t0 := time.Now()
	sum := &Summary{Type: "summary", Property: prop, Counters: map[string]int64{}, FirstSeed: seed}
	fps := map[uint64]bool{}
	sps := map[uint64]bool{}
	sts := map[uint64]bool{}
	var pj *os.File
	if progress != "" {
		pj, _ = os.OpenFile(progress, os.O_CREATE|os.O_WRONLY|os.O_TRUNC, 0o644)
	}
	code := 0
	for i := 0; i < count; i++ {
		if time.Since(t0).Seconds() > budget {
			break
		}
		s := seed + uint64(i)*stride
		if pj != nil {
			fmt.Fprintf(pj, "%d\n", s)
		}
		e := engineForSeed(prop, s)
		spec := e.Gen(prop, s, tier)
		if spec == nil {
			break // enumerated space exhausted
		}
		res := e.Exec(spec)
		sum.Runs++
		if spec.Engine == "simple" && prop == "C11" {
			sum.Counters["simple_server_runs"]++
		}
		if spec.Engine == "conc" && (prop == "C01" || prop == "C07") {
			sum.Counters["concurrent_crash_runs"]++
		}
		if t, ok := spec.Knobs["total"]; ok {
			sum.Counters["space_size"] += t // divided by the number of runs in the driver
		}
		sum.LastSeed = s
		if res.Nontrivial {
			sum.Nontrivial++
		}
		sum.Steps += res.Steps
		sum.SimNanos += res.SimNanos
		sum.Inconcl += res.Inconcl
		for k, v := range res.Counters {
			sum.Counters[k] += v
		}
		for k, v := range simrt.TakeProbes() {
			sum.Counters[k] += v
		}
		// which scheduling policy / starvation profile / clock mode this run used
		sum.Counters["sched_policy_"+spec.Sched.Policy]++
		for _, st := range spec.Sched.Starve {
			switch {
			case strings.Contains(st, "wal.go:37"):
				sum.Counters["fault_stalled_logger"]++
			case strings.Contains(st, "wal.go:38"):
				sum.Counters["fault_stalled_installer"]++
			case strings.Contains(st, "shrinker"):
				sum.Counters["fault_stalled_shrinker"]++
			}
		}
		if spec.Sched.Clock == 2 {
			sum.Counters["fault_clock_jumps"]++
		}
		if len(fps) < 200000 {
			fps[res.Fingerprint] = true
			sps[res.SchedPrint] = true
		}
		for _, h := range res.StateHashes {
			if len(sts) < 400000 {
				sts[h] = true
			}
		}
		if len(sum.Samples) < 2 && res.Nontrivial {
			b, _ := json.Marshal(sampleOf(spec))
			sum.Samples = append(sum.Samples, b)
		}
		if res.Viol != nil && knownRe != nil && knownRe.MatchString(res.Viol.Sig) {
			// an open known finding (listed in known_findings.json, re-created by
			// its probe on every run): counted, not reported again
			sum.Counters["known_finding_hits"]++
			continue
		}
		if res.Viol != nil {
			spec.Violation = res.Viol
			emit(map[string]interface{}{"type": "violation", "spec": spec})
			code = 1
			break
		}
		if i%16 == 15 {
			runtime.GC()
		}
	}
	sum.Fingerprints = keys(fps)
	sum.SchedPrints = keys(sps)
	sum.States = keys(sts)
	sum.WallS = time.Since(t0).Seconds()
	emit(sum)
	return code
}

func keys(m map[uint64]bool) []uint64 {
	out := make([]uint64, 0, len(m))
	for k := range m {
		out = append(out, k)
	}
	sort.Slice(out, func(i, j int) bool { return out[i] < out[j] })
	return out
}

// sampleOf returns a compact, human-readable rendering of a run.
func sampleOf(s *Spec) interface{} {
	c := *s
	var cl [][]Op
	n := 0
	for _, ops := range s.Clients {
		var o []Op
		for _, op := range ops {
			if n < 40 {
				o = append(o, op)
				n++
			}
		}
		cl = append(cl, o)
	}
	c.Clients = cl
	return &c
}

func loadSpec(file string) *Spec {
	b, err := os.ReadFile(file)
	if err != nil {
		fmt.Fprintln(os.Stderr, "vworker:", err)
		os.Exit(2)
	}
	var s Spec
	if err := json.Unmarshal(b, &s); err != nil {
		fmt.Fprintln(os.Stderr, "vworker: bad replay file:", err)
		os.Exit(2)
	}
	return &s
}

func engineOfSpec(spec *Spec) Engine {
	if e, ok := engines[spec.Engine]; ok {
		return e
	}
	return engineFor(spec.Property)
}

func cmdReplay(file string) int {
	spec := loadSpec(file)
	e := engineOfSpec(spec)
	res := e.Exec(spec)
	if res.Viol != nil {
		emit(map[string]interface{}{"type": "replayed", "violation": res.Viol, "fingerprint": res.Fingerprint})
		if spec.Violation != nil && spec.Violation.Sig != res.Viol.Sig {
			fmt.Fprintf(os.Stderr, "replay: violation signature differs: file %q, now %q\n", spec.Violation.Sig, res.Viol.Sig)
		}
		return 1
	}
	emit(map[string]interface{}{"type": "replayed", "violation": nil, "fingerprint": res.Fingerprint})
	return 0
}

func cmdSelftest(prop, tier string, seed uint64, count int) int {
	for i := 0; i < count; i++ {
		s := seed + uint64(i)
		e := engineForSeed(prop, s)
		spec := e.Gen(prop, s, tier)
		if spec == nil {
			// enumerated space (C15): fold the seed into the list
			s = s % 300
			spec = e.Gen(prop, s, tier)
			if spec == nil {
				continue
			}
		}
		res := e.Exec(spec)
		v := ""
		if res.Viol != nil {
			v = res.Viol.Sig
		}
		fmt.Printf("%d %016x %016x %d %s\n", s, res.Fingerprint, res.SchedPrint, res.Steps, v)
	}
	return 0
}

// ---- minimisation: ddmin over the operations, same violation signature ----

type opRef struct{ c, i int }

func cmdShrink(file, out string, budget float64) int {
	spec := loadSpec(file)
	e := engineOfSpec(spec)
	if spec.Violation == nil {
		fmt.Fprintln(os.Stderr, "shrink: file has no violation")
		return 2
	}
	sig := spec.Violation.Sig
	t0 := time.Now()
	tries := 0
	fails := func(s *Spec) bool {
		tries++
		r := e.Exec(s)
		return r.Viol != nil && r.Viol.Sig == sig
	}
	if !fails(spec) {
		fmt.Fprintln(os.Stderr, "shrink: the replay file does not reproduce its violation")
		return 2
	}
	cur := spec
	var refs []opRef
	rebuild := func(keep []opRef) *Spec {
		c := *cur
		c.Clients = make([][]Op, len(cur.Clients))
		for _, r := range keep {
			c.Clients[r.c] = append(c.Clients[r.c], cur.Clients[r.c][r.i])
		}
		return &c
	}
	for ci, ops := range cur.Clients {
		for i := range ops {
			refs = append(refs, opRef{ci, i})
		}
	}
	n := 2
	for len(refs) >= 2 && time.Since(t0).Seconds() < budget {
		chunk := (len(refs) + n - 1) / n
		reduced := false
		for start := 0; start < len(refs); start += chunk {
			end := start + chunk
			if end > len(refs) {
				end = len(refs)
			}
			cand := append(append([]opRef{}, refs[:start]...), refs[end:]...)
			if len(cand) == 0 {
				continue
			}
			if fails(rebuild(cand)) {
				refs = cand
				if n > 2 {
					n--
				}
				reduced = true
				break
			}
			if time.Since(t0).Seconds() > budget {
				break
			}
		}
		if !reduced {
			if chunk <= 1 {
				break
			}
			n *= 2
			if n > len(refs) {
				n = len(refs)
			}
		}
	}
	min := rebuild(refs)
	// simplify the schedule: prefer the plain fifo scheduler, then fewer clients' switch rate
	for _, pol := range []string{"fifo", "rr"} {
		c := *min
		c.Sched.Policy = pol
		c.Sched.Starve = nil
		if fails(&c) {
			min = &c
			break
		}
	}
	r := e.Exec(min)
	if r.Viol == nil || r.Viol.Sig != sig {
		fmt.Fprintln(os.Stderr, "shrink: minimised spec stopped failing (nondeterminism?)")
		return 2
	}
	min.Violation = r.Viol
	b, _ := json.MarshalIndent(min, "", " ")
	if err := os.WriteFile(out, b, 0o644); err != nil {
		fmt.Fprintln(os.Stderr, err)
		return 2
	}
	nops := 0
	for _, c := range min.Clients {
		nops += len(c)
	}
	emit(map[string]interface{}{"type": "shrunk", "ops": nops, "tries": tries, "wall_s": time.Since(t0).Seconds()})
	return 0
}
