package main

// M: the reference file system. It is a *checker* of (request, reply) pairs:
// Step verifies that the reply is one the reference allows in the current
// state and applies the effect the reply implies. With out == nil it runs in
// predictive mode (used by the generators): the operation is assumed to have
// its normal outcome.
//
// It is strict on what the properties state (name resolution, bytes and
// zeros, sizes, disappearance, "fails without effect", stale handles,
// non-empty directories, rename compatibility, no cycles, name validity,
// announced limits) and holds a set of allowed outcomes where RFC 1813 leaves
// latitude (UNCHECKED create of an existing name, REMOVE of an empty
// directory, COMMIT ranges, rename between a file and a symlink, error codes).

import (
	"bytes"
	"fmt"
	"sort"
	"strings"
)

const (
	kREG = 1
	kDIR = 2
	kLNK = 5

	stOK        = 0
	stSTALE     = 70
	stBADHANDLE = 10001
	stNOSPC     = 28
	stTOOSMALL  = 10005
)

const pageSz = 4096

type MObj struct {
	ID     int
	Kind   uint32
	H      string // file handle (opaque)
	FileID uint64
	Size   uint64
	Pages  map[uint64][]byte // REG: page index -> 4096 bytes; absent = zeroes
	Target string
	Kids   map[string]int
	Parent int
	Live   bool
}

type Limits struct {
	NameMax     uint64
	MaxFileSize uint64
	WtMax       uint64
	RtMax       uint64
	Known       bool
}

type Model struct {
	Objs     map[int]*MObj
	ByH      map[string]int // every handle ever bound (live or dead)
	Root     int
	NextID   int
	Lim      Limits
	owned    map[int]bool
	ownByH   bool
	NoSpace  bool // configuration in which running out of space is legitimate
	Lenient  bool // concurrent-listing mode: per-entry attributes are not one snapshot
	Verf     string
	VerfSeen bool
}

type Attr struct {
	Type   uint32
	Size   uint64
	FileID uint64
}

type DirEnt struct {
	Name   string
	FileID uint64
	Cookie uint64
	H      string // READDIRPLUS
	HasH   bool
	Attr   *Attr
}

// In is a request with concrete handles.
type In struct {
	K         string // getattr setattr lookup access readlink read write create mkdir symlink mknod remove rmdir rename link readdir readdirplus fsstat fsinfo pathconf commit
	Obj       string // primary handle
	Obj2      string // RENAME target directory
	Name      string
	Name2     string
	Off       uint64
	Count     uint64
	Data      []byte
	SetSz     bool
	Size      uint64
	SetTm     bool // set both times
	SetAt     bool // set atime only
	SetMt     bool // set mtime only
	How       int  // WRITE stable_how / CREATE mode
	Cookie    uint64
	BadCookie bool // a cookie the server never issued: any reply is acceptable
	Dircnt    uint64
	Maxcnt    uint64
	// crash histories (conc engine): the operation had not returned when the disk
	// was cut off / the operation observes the recovered server
	Pending   bool
	PostCrash bool
}

// Out is a reply.
type Out struct {
	Status  uint32
	H       string
	HasH    bool
	Attr    *Attr // object attributes (post-op)
	Data    []byte
	Eof     bool
	Count   uint64
	Commit  int
	Verf    string
	Ents    []DirEnt
	Lim     Limits
	Crashed bool
	RPCErr  string // transport-level problem (no reply, undecodable reply, RPC refusal)
}

func NewModel(rootH string, rootID uint64) *Model {
	m := &Model{Objs: map[int]*MObj{}, ByH: map[string]int{}, owned: map[int]bool{}, ownByH: true, NextID: 1}
	root := &MObj{ID: 0, Kind: kDIR, H: rootH, FileID: rootID, Kids: map[string]int{}, Parent: 0, Live: true}
	m.Objs[0] = root
	m.owned[0] = true
	m.ByH[rootH] = 0
	m.Root = 0
	m.Lim = Limits{NameMax: 255, MaxFileSize: 1 << 62, WtMax: 1 << 31}
	return m
}

// Clone returns a copy-on-write copy.
func (m *Model) Clone() *Model {
	n := *m
	n.Objs = make(map[int]*MObj, len(m.Objs))
	for k, v := range m.Objs {
		n.Objs[k] = v
	}
	n.owned = map[int]bool{}
	n.ownByH = false
	// the original shares every object with the copy from now on
	m.owned = map[int]bool{}
	m.ownByH = false
	return &n
}

func (m *Model) mut(id int) *MObj {
	o := m.Objs[id]
	if m.owned[id] {
		return o
	}
	c := *o
	if o.Kids != nil {
		c.Kids = make(map[string]int, len(o.Kids))
		for k, v := range o.Kids {
			c.Kids[k] = v
		}
	}
	if o.Pages != nil {
		c.Pages = make(map[uint64][]byte, len(o.Pages))
		for k, v := range o.Pages {
			c.Pages[k] = v
		}
	}
	m.Objs[id] = &c
	m.owned[id] = true
	return &c
}

func (m *Model) bindH(h string, id int) {
	if !m.ownByH {
		n := make(map[string]int, len(m.ByH)+1)
		for k, v := range m.ByH {
			n[k] = v
		}
		m.ByH = n
		m.ownByH = true
	}
	m.ByH[h] = id
}

type hres int

const (
	hLive hres = iota
	hDead
	hGarbage
)

func (m *Model) resolve(h string) (*MObj, hres) {
	id, ok := m.ByH[h]
	if !ok {
		return nil, hGarbage
	}
	o := m.Objs[id]
	if o == nil || !o.Live {
		return nil, hDead
	}
	return o, hLive
}

func (m *Model) attrOf(o *MObj) Attr {
	sz := o.Size
	if o.Kind == kLNK {
		sz = uint64(len(o.Target))
	}
	return Attr{Type: o.Kind, Size: sz, FileID: o.FileID}
}

// LiveObjs returns live objects sorted by id.
func (m *Model) LiveObjs() []*MObj {
	var out []*MObj
	for _, o := range m.Objs {
		if o.Live {
			out = append(out, o)
		}
	}
	sort.Slice(out, func(i, j int) bool { return out[i].ID < out[j].ID })
	return out
}

func (m *Model) DeadObjs() []*MObj {
	var out []*MObj
	for _, o := range m.Objs {
		if !o.Live {
			out = append(out, o)
		}
	}
	sort.Slice(out, func(i, j int) bool { return out[i].ID < out[j].ID })
	return out
}

func sortedNames(k map[string]int) []string {
	out := make([]string, 0, len(k))
	for n := range k {
		out = append(out, n)
	}
	sort.Strings(out)
	return out
}

// PathOf returns the path of a live object.
func (m *Model) PathOf(o *MObj) string {
	if o.ID == m.Root {
		return "/"
	}
	var parts []string
	cur := o
	for cur.ID != m.Root {
		p := m.Objs[cur.Parent]
		name := "?"
		for n, id := range p.Kids {
			if id == cur.ID {
				name = n
			}
		}
		parts = append([]string{escName(name)}, parts...)
		cur = p
		if len(parts) > 200 {
			break
		}
	}
	return "/" + strings.Join(parts, "/")
}

func (m *Model) readRange(o *MObj, off, n uint64) []byte {
	out := make([]byte, n)
	for i := uint64(0); i < n; {
		pg := (off + i) / pageSz
		po := (off + i) % pageSz
		c := uint64(pageSz) - po
		if c > n-i {
			c = n - i
		}
		if p, ok := o.Pages[pg]; ok {
			copy(out[i:i+c], p[po:po+c])
		}
		i += c
	}
	return out
}

func (m *Model) writeRange(o *MObj, off uint64, data []byte) {
	n := uint64(len(data))
	for i := uint64(0); i < n; {
		pg := (off + i) / pageSz
		po := (off + i) % pageSz
		c := uint64(pageSz) - po
		if c > n-i {
			c = n - i
		}
		if po == 0 && c == pageSz {
			// a whole page: share the request's bytes (requests are immutable), so
			// that the many model states of a history checker do not each hold a copy
			o.Pages[pg] = data[i : i+c : i+c]
			i += c
			continue
		}
		prev := o.Pages[pg]
		var key pwKey
		if internPages {
			// the same partial write applied to the same page (by identity) gives the
			// same page: the states a history checker explores share the result
			key = pwKey{src: &data[i], po: po, c: c}
			if len(prev) > 0 {
				key.prev = &prev[0]
			}
			pageHashMu.Lock()
			np, ok := pageWriteCache[key]
			pageHashMu.Unlock()
			if ok {
				o.Pages[pg] = np
				i += c
				continue
			}
		}
		np := make([]byte, pageSz)
		copy(np, prev)
		copy(np[po:po+c], data[i:i+c])
		o.Pages[pg] = np
		if internPages {
			pageHashMu.Lock()
			pageWriteCache[key] = np
			pageHashMu.Unlock()
		}
		i += c
	}
}

type pwKey struct {
	prev, src *byte
	po, c     uint64
}

// internPages is switched on by the engines that run a history checker over
// many model states (reset per run with the page-hash cache).
var (
	internPages    bool
	pageWriteCache = map[pwKey][]byte{}
)

func (m *Model) truncate(o *MObj, sz uint64) {
	if sz < o.Size {
		for pg := range o.Pages {
			if pg*pageSz >= sz {
				delete(o.Pages, pg)
			}
		}
		if sz%pageSz != 0 {
			pg := sz / pageSz
			if p, ok := o.Pages[pg]; ok {
				np := make([]byte, pageSz)
				copy(np, p[:sz%pageSz])
				o.Pages[pg] = np
			}
		}
	}
	o.Size = sz
}

func (m *Model) validName(n string) bool {
	if n == "" || n == "." || n == ".." {
		return false
	}
	if uint64(len(n)) > m.Lim.NameMax {
		return false
	}
	if strings.ContainsAny(n, "/\x00") {
		return false
	}
	return true
}

// oddName: a name of legal length that contains '/' or NUL. RFC 1813 lets a
// server refuse or store such names; both outcomes are accepted.
func (m *Model) oddName(n string) bool {
	return n != "" && uint64(len(n)) <= m.Lim.NameMax && strings.ContainsAny(n, "/\x00")
}

func (m *Model) kill(id int) {
	o := m.mut(id)
	o.Live = false
	o.Pages = nil
	o.Kids = nil
}

// isAncestor reports whether a is an ancestor of (or equal to) b.
func (m *Model) isAncestor(a, b int) bool {
	cur := b
	for i := 0; i < 10000; i++ {
		if cur == a {
			return true
		}
		if cur == m.Root {
			return false
		}
		cur = m.Objs[cur].Parent
	}
	return false
}

// attrEq compares the attributes the properties list: type, file id, and the
// size of non-directories (the byte size of a directory is the server's
// business).
func attrEq(got, want Attr) bool {
	if got.Type != want.Type || got.FileID != want.FileID {
		return false
	}
	return want.Type == kDIR || got.Size == want.Size
}

type mismatch struct{ s string }

func (e *mismatch) Error() string { return e.s }

func mm(format string, a ...interface{}) error { return &mismatch{fmt.Sprintf(format, a...)} }

func (o *Out) ok() bool { return o == nil || o.Status == stOK }

// expectFail: the reference says the request cannot be performed.
func expectFail(in *In, out *Out, why string) error {
	if out == nil {
		return nil
	}
	if out.Status == stOK {
		return mm("%s succeeded but the reference file system refuses it: %s", in.K, why)
	}
	return nil
}

// expectStale: a handle of a removed object was used.
func expectStale(in *In, out *Out, which string) error {
	if out == nil {
		return nil
	}
	if out.Status == stOK {
		return mm("%s succeeded although its %s handle denotes a removed object (must fail as stale)", in.K, which)
	}
	if out.Status != stSTALE && out.Status != stBADHANDLE {
		return mm("%s with a %s handle of a removed object failed with status %d, not as stale", in.K, which, out.Status)
	}
	return nil
}

// handleArg resolves a handle argument; a non-nil error or done=true ends the step.
func (m *Model) handleArg(in *In, out *Out, h string, which string) (*MObj, bool, error) {
	o, r := m.resolve(h)
	switch r {
	case hDead:
		if m.otherwiseInvalid(in) {
			// another argument is refused independently; which error wins is the server's choice
			return nil, true, expectFail(in, out, "the "+which+" handle denotes a removed object")
		}
		return nil, true, expectStale(in, out, which)
	case hGarbage:
		return nil, true, expectFail(in, out, "the "+which+" handle was never issued")
	}
	return o, false, nil
}

// otherwiseInvalid: the request has an argument that is refused whatever the handles are.
func (m *Model) otherwiseInvalid(in *In) bool {
	switch in.K {
	case "symlink":
		// (a link target longer than the largest WRITE may be refused as such)
		return !m.validName(in.Name) || (m.Lim.WtMax > 0 && uint64(len(in.Data)) > m.Lim.WtMax)
	case "create", "mkdir", "remove", "rmdir":
		return !m.validName(in.Name)
	case "rename":
		return !m.validName(in.Name) || !m.validName(in.Name2)
	case "lookup":
		return in.Name == "" || uint64(len(in.Name)) > m.Lim.NameMax
	case "write":
		return in.Count > uint64(len(in.Data)) || in.Count > m.Lim.WtMax || in.Off+in.Count < in.Off || in.Off+in.Count > m.Lim.MaxFileSize
	}
	return false
}

func (m *Model) checkAttr(in *In, out *Out, o *MObj, what string) error {
	if out == nil || out.Attr == nil {
		return nil
	}
	want := m.attrOf(o)
	if !attrEq(*out.Attr, want) {
		return mm("%s: %s attributes are {type %d size %d fileid %d}, reference has {type %d size %d fileid %d} for %s",
			in.K, what, out.Attr.Type, out.Attr.Size, out.Attr.FileID, want.Type, want.Size, want.FileID, m.PathOf(o))
	}
	return nil
}

// spaceFail: in space-pressure configurations an operation that needs new
// blocks or inodes may fail (without effect).
func (m *Model) spaceFail(out *Out) bool {
	return m.NoSpace && out != nil && out.Status != stOK
}

// Step checks one (request, reply) pair and applies its effect. The model
// must be a private (cloned) copy when purity matters.
func (m *Model) Step(in *In, out *Out) error {
	if out != nil && out.Verf != "" {
		if m.VerfSeen && m.Verf != out.Verf {
			return mm("%s: write verifier changed within one server instance", in.K)
		}
		m.Verf = out.Verf
		m.VerfSeen = true
	}
	switch in.K {
	case "null":
		return nil
	case "getattr":
		o, done, err := m.handleArg(in, out, in.Obj, "object")
		if done {
			return err
		}
		if !out.ok() {
			return mm("getattr of live object %s failed with status %d", m.PathOf(o), out.Status)
		}
		return m.checkAttr(in, out, o, "returned")
	case "access":
		o, done, err := m.handleArg(in, out, in.Obj, "object")
		if done {
			return err
		}
		if !out.ok() {
			return mm("access of live object %s failed with status %d", m.PathOf(o), out.Status)
		}
		return m.checkAttr(in, out, o, "object")
	case "fsinfo", "pathconf":
		_, done, err := m.handleArg(in, out, in.Obj, "object")
		if done {
			return err
		}
		if !out.ok() {
			return mm("%s failed with status %d", in.K, out.Status)
		}
		if out != nil {
			if in.K == "fsinfo" {
				m.Lim.MaxFileSize = out.Lim.MaxFileSize
				m.Lim.WtMax = out.Lim.WtMax
				m.Lim.RtMax = out.Lim.RtMax
			} else {
				m.Lim.NameMax = out.Lim.NameMax
			}
		}
		return nil
	case "fsstat", "mknod", "link":
		// not supported by this server: must fail without effect
		if out != nil && out.Status == stOK {
			return mm("%s is not supported and must fail, but succeeded", in.K)
		}
		return nil
	case "setattr":
		return m.stepSetattr(in, out)
	case "lookup":
		return m.stepLookup(in, out)
	case "readlink":
		o, done, err := m.handleArg(in, out, in.Obj, "object")
		if done {
			return err
		}
		if o.Kind != kLNK {
			return expectFail(in, out, "not a symbolic link")
		}
		if !out.ok() {
			return mm("readlink of %s failed with status %d", m.PathOf(o), out.Status)
		}
		if out != nil && string(out.Data) != o.Target {
			return mm("readlink of %s returned %q, reference has %q", m.PathOf(o), clip(string(out.Data)), clip(o.Target))
		}
		return nil
	case "read":
		return m.stepRead(in, out)
	case "write":
		return m.stepWrite(in, out)
	case "create", "mkdir", "symlink":
		return m.stepCreate(in, out)
	case "remove", "rmdir":
		return m.stepRemove(in, out)
	case "rename":
		return m.stepRename(in, out)
	case "readdir", "readdirplus":
		return m.stepReaddir(in, out)
	case "commit":
		o, done, err := m.handleArg(in, out, in.Obj, "object")
		if done {
			return err
		}
		if o.Kind != kREG {
			return expectFail(in, out, "not a regular file")
		}
		if !out.ok() {
			// latitude: a range beyond the end of file may be refused
			if in.Off+in.Count > o.Size {
				return nil
			}
			return mm("commit of %s failed with status %d", m.PathOf(o), out.Status)
		}
		return nil
	}
	return mm("model: unknown operation %q", in.K)
}

func clip(s string) string {
	if len(s) > 60 {
		return s[:60] + fmt.Sprintf("...(%d bytes)", len(s))
	}
	return s
}

func (m *Model) stepSetattr(in *In, out *Out) error {
	o, done, err := m.handleArg(in, out, in.Obj, "object")
	if done {
		return err
	}
	if in.SetSz {
		if o.Kind == kDIR {
			return expectFail(in, out, "the size of a directory cannot be set")
		}
		if o.Kind == kLNK {
			// latitude: refuse, or no visible change; truncating a link target is not modelled
			if out != nil && out.Status == stOK {
				return mm("setattr size on a symbolic link succeeded")
			}
			return nil
		}
		if in.Size > m.Lim.MaxFileSize {
			return expectFail(in, out, fmt.Sprintf("size %d exceeds the announced maximum file size %d", in.Size, m.Lim.MaxFileSize))
		}
	}
	if !out.ok() {
		if in.SetSz && in.Size > o.Size && m.spaceFail(out) {
			return nil
		}
		if in.How&3 != 0 && out.Status == 10002 {
			return nil // NFS3ERR_NOT_SYNC: the guard's ctime is not the object's; no effect
		}
		return mm("setattr of %s (size set=%v %d) failed with status %d", m.PathOf(o), in.SetSz, in.Size, out.Status)
	}
	if in.SetSz && o.Kind == kREG {
		o = m.mut(o.ID)
		m.truncate(o, in.Size)
	}
	return m.checkAttr(in, out, o, "post-operation")
}

func (m *Model) stepLookup(in *In, out *Out) error {
	d, done, err := m.handleArg(in, out, in.Obj, "directory")
	if done {
		return err
	}
	if d.Kind != kDIR {
		return expectFail(in, out, "lookup in a non-directory")
	}
	var t *MObj
	switch in.Name {
	case ".":
		t = d
	case "..":
		t = m.Objs[d.Parent]
	default:
		if id, ok := d.Kids[in.Name]; ok {
			t = m.Objs[id]
		}
	}
	if t == nil {
		return expectFail(in, out, fmt.Sprintf("no entry %q in %s", clip(in.Name), m.PathOf(d)))
	}
	if !out.ok() {
		return mm("lookup of %q in %s failed with status %d but the entry exists", clip(in.Name), m.PathOf(d), out.Status)
	}
	if out != nil {
		if out.H != t.H {
			return mm("lookup of %q in %s returned handle %x, the object's handle is %x", clip(in.Name), m.PathOf(d), out.H, t.H)
		}
		return m.checkAttr(in, out, t, "returned")
	}
	return nil
}

func (m *Model) stepRead(in *In, out *Out) error {
	o, done, err := m.handleArg(in, out, in.Obj, "file")
	if done {
		return err
	}
	if o.Kind != kREG {
		return expectFail(in, out, "read of a non-regular file")
	}
	if !out.ok() {
		if m.spaceFail(out) {
			return nil
		}
		return mm("read of %s off %d count %d failed with status %d", m.PathOf(o), in.Off, in.Count, out.Status)
	}
	if out == nil {
		return nil
	}
	var avail uint64
	if in.Off < o.Size {
		avail = in.Count
		if avail > o.Size-in.Off {
			avail = o.Size - in.Off
		}
	}
	if out.Count != uint64(len(out.Data)) {
		return mm("read of %s: reply count %d but %d bytes of data", m.PathOf(o), out.Count, len(out.Data))
	}
	got := uint64(len(out.Data))
	if got > avail {
		return mm("read of %s off %d count %d (size %d): returned %d bytes, more than the %d available", m.PathOf(o), in.Off, in.Count, o.Size, got, avail)
	}
	if got < avail {
		// a short read is legitimate when space runs out while filling a hole,
		// or when the request exceeds the announced maximum read size (then at
		// least that much must come back); it must be a prefix
		short := m.NoSpace
		if m.Lim.RtMax > 0 && in.Count > m.Lim.RtMax && got >= m.Lim.RtMax {
			short = true
		}
		if !short {
			return mm("read of %s off %d count %d (size %d): returned %d bytes, reference has %d", m.PathOf(o), in.Off, in.Count, o.Size, got, avail)
		}
	}
	want := m.readRange(o, in.Off, got)
	if !bytes.Equal(out.Data, want) {
		return mm("read of %s off %d count %d (size %d): %s", m.PathOf(o), in.Off, in.Count, o.Size, diffBytes(out.Data, want, in.Off))
	}
	return nil
}

func diffBytes(got, want []byte, base uint64) string {
	if len(got) != len(want) {
		return fmt.Sprintf("returned %d bytes, reference has %d", len(got), len(want))
	}
	for i := range got {
		if got[i] != want[i] {
			j := i
			for j < len(got) && got[j] != want[j] {
				j++
			}
			return fmt.Sprintf("bytes differ at file offset %d (first differing run %d bytes): got 0x%02x, reference has 0x%02x", base+uint64(i), j-i, got[i], want[i])
		}
	}
	return "equal"
}

func (m *Model) stepWrite(in *In, out *Out) error {
	o, done, err := m.handleArg(in, out, in.Obj, "file")
	if done {
		return err
	}
	if o.Kind != kREG {
		return expectFail(in, out, "write to a non-regular file")
	}
	cnt := in.Count
	dl := uint64(len(in.Data))
	if cnt > m.Lim.WtMax {
		return expectFail(in, out, fmt.Sprintf("count %d exceeds the announced wtmax %d", cnt, m.Lim.WtMax))
	}
	if in.Off+cnt < in.Off || in.Off+cnt > m.Lim.MaxFileSize {
		return expectFail(in, out, fmt.Sprintf("offset %d + count %d exceeds the announced maximum file size %d", in.Off, cnt, m.Lim.MaxFileSize))
	}
	if out == nil {
		if cnt > dl {
			return nil // predicted: refused
		}
		o = m.mut(o.ID)
		m.apply(o, in.Off, in.Data[:cnt])
		return nil
	}
	if out.Status != stOK {
		if cnt > dl {
			return nil // count exceeds the data supplied: refusing is right
		}
		if m.spaceFail(out) {
			return nil
		}
		return mm("write to %s off %d count %d failed with status %d", m.PathOf(o), in.Off, cnt, out.Status)
	}
	n := out.Count
	wantN := cnt
	if dl < wantN {
		wantN = dl
	}
	if m.NoSpace && n > 0 && n < wantN {
		// a short write is legal when space runs out part-way; the prefix was written
	} else if n != wantN {
		return mm("write to %s off %d count %d (data %d bytes): reply says %d bytes written", m.PathOf(o), in.Off, cnt, dl, n)
	}
	if out.Commit < in.How {
		return mm("write with stable_how %d answered committed=%d (weaker than requested)", in.How, out.Commit)
	}
	o = m.mut(o.ID)
	m.apply(o, in.Off, in.Data[:n])
	return m.checkAttr(in, out, o, "post-operation")
}

func (m *Model) apply(o *MObj, off uint64, data []byte) {
	if len(data) == 0 {
		return
	}
	m.writeRange(o, off, data)
	if off+uint64(len(data)) > o.Size {
		o.Size = off + uint64(len(data))
	}
}

func (m *Model) stepCreate(in *In, out *Out) error {
	if in.K == "create" && in.How == 2 && out != nil && out.Status != stOK {
		return nil // EXCLUSIVE create is not supported by this server: any refusal, no effect
	}
	d, done, err := m.handleArg(in, out, in.Obj, "directory")
	if done {
		return err
	}
	if d.Kind != kDIR {
		return expectFail(in, out, "create in a non-directory")
	}
	if m.oddName(in.Name) {
		if out == nil || out.Status != stOK {
			return nil
		}
	} else if !m.validName(in.Name) {
		return expectFail(in, out, fmt.Sprintf("%q (%d bytes) is not a legal name (announced name_max %d)", clip(in.Name), len(in.Name), m.Lim.NameMax))
	}
	if id, exists := d.Kids[in.Name]; exists {
		ex := m.Objs[id]
		if in.K == "create" && in.How == 0 && ex.Kind == kREG {
			// UNCHECKED create of an existing file: refusing or returning the
			// existing object are both within RFC 1813
			if out != nil && out.Status == stOK {
				if out.HasH && out.H != ex.H {
					return mm("unchecked create of existing %s returned a different handle", m.PathOf(ex))
				}
				return m.checkAttr(in, out, ex, "returned")
			}
			return nil
		}
		return expectFail(in, out, fmt.Sprintf("%q already exists in %s", clip(in.Name), m.PathOf(d)))
	}
	if in.K == "create" && in.How == 2 {
		// EXCLUSIVE create: not supported by this server; must then fail without effect
		if out == nil || out.Status != stOK {
			return nil
		}
	}
	if in.K == "symlink" && m.Lim.WtMax > 0 && uint64(len(in.Data)) > m.Lim.WtMax {
		// a link target longer than the largest WRITE the server accepts: refusing it
		// (without effect) is fine, as no limit for link targets is announced
		if out == nil || out.Status != stOK {
			return nil
		}
	}
	if !out.ok() {
		if m.spaceFail(out) {
			return nil
		}
		return mm("%s of %q in %s failed with status %d", in.K, clip(in.Name), m.PathOf(d), out.Status)
	}
	id := m.NextID
	m.NextID++
	o := &MObj{ID: id, Parent: d.ID, Live: true}
	switch in.K {
	case "create":
		o.Kind = kREG
		o.Pages = map[uint64][]byte{}
	case "mkdir":
		o.Kind = kDIR
		o.Kids = map[string]int{}
	case "symlink":
		o.Kind = kLNK
		o.Target = string(in.Data)
	}
	if out != nil {
		if !out.HasH {
			return mm("%s succeeded without returning a handle", in.K)
		}
		if prev, seen := m.ByH[out.H]; seen {
			return mm("%s of %q returned handle %x which was already issued for object #%d (%s): two objects share a handle",
				in.K, clip(in.Name), out.H, prev, m.describe(prev))
		}
		o.H = out.H
		if out.Attr != nil {
			o.FileID = out.Attr.FileID
			for _, l := range m.LiveObjs() {
				if l.FileID == o.FileID {
					return mm("%s of %q got file id %d which live object %s already has", in.K, clip(in.Name), o.FileID, m.PathOf(l))
				}
			}
		}
	} else {
		o.H = fmt.Sprintf("h%d", id)
		o.FileID = uint64(1000 + id)
	}
	m.Objs[id] = o
	m.owned[id] = true
	m.bindH(o.H, id)
	dm := m.mut(d.ID)
	dm.Kids[in.Name] = id
	return m.checkAttr(in, out, o, "returned")
}

func (m *Model) describe(id int) string {
	o := m.Objs[id]
	if o == nil {
		return "?"
	}
	if o.Live {
		return "live " + m.PathOf(o)
	}
	return "removed"
}

func (m *Model) stepRemove(in *In, out *Out) error {
	d, done, err := m.handleArg(in, out, in.Obj, "directory")
	if done {
		return err
	}
	if d.Kind != kDIR {
		return expectFail(in, out, "remove in a non-directory")
	}
	if in.Name == "." || in.Name == ".." {
		return expectFail(in, out, "'.' and '..' cannot be removed")
	}
	id, ok := d.Kids[in.Name]
	if !ok {
		return expectFail(in, out, fmt.Sprintf("no entry %q in %s", clip(in.Name), m.PathOf(d)))
	}
	t := m.Objs[id]
	if in.K == "rmdir" {
		if t.Kind != kDIR {
			return expectFail(in, out, "rmdir of a non-directory")
		}
		if len(t.Kids) > 0 {
			return expectFail(in, out, fmt.Sprintf("directory %s is not empty", m.PathOf(t)))
		}
	} else if t.Kind == kDIR {
		if len(t.Kids) > 0 {
			return expectFail(in, out, fmt.Sprintf("REMOVE of non-empty directory %s", m.PathOf(t)))
		}
		// latitude: REMOVE of an empty directory may be refused or performed
		if out == nil || out.Status != stOK {
			return nil
		}
	}
	if !out.ok() {
		return mm("%s of %q in %s failed with status %d", in.K, clip(in.Name), m.PathOf(d), out.Status)
	}
	dm := m.mut(d.ID)
	delete(dm.Kids, in.Name)
	m.kill(id)
	return nil
}

func (m *Model) stepRename(in *In, out *Out) error {
	fd, done, err := m.handleArg(in, out, in.Obj, "source directory")
	if done {
		return err
	}
	td, done, err := m.handleArg(in, out, in.Obj2, "target directory")
	if done {
		return err
	}
	if fd.Kind != kDIR || td.Kind != kDIR {
		return expectFail(in, out, "rename with a non-directory as directory")
	}
	if in.Name == "." || in.Name == ".." || in.Name2 == "." || in.Name2 == ".." {
		return expectFail(in, out, "'.' and '..' cannot be renamed")
	}
	sid, ok := fd.Kids[in.Name]
	if !ok {
		return expectFail(in, out, fmt.Sprintf("no entry %q in %s", clip(in.Name), m.PathOf(fd)))
	}
	if m.oddName(in.Name2) {
		if out == nil || out.Status != stOK {
			return nil
		}
	} else if !m.validName(in.Name2) {
		return expectFail(in, out, fmt.Sprintf("target name %q (%d bytes) is not legal (announced name_max %d)", clip(in.Name2), len(in.Name2), m.Lim.NameMax))
	}
	src := m.Objs[sid]
	tid, texists := td.Kids[in.Name2]
	if texists && tid == sid {
		if !out.ok() {
			return mm("rename of %s onto itself failed with status %d", m.PathOf(src), out.Status)
		}
		return nil
	}
	if src.Kind == kDIR && m.isAncestor(src.ID, td.ID) {
		return expectFail(in, out, fmt.Sprintf("moving directory %s into its own subtree %s", m.PathOf(src), m.PathOf(td)))
	}
	if texists {
		t := m.Objs[tid]
		if (src.Kind == kDIR) != (t.Kind == kDIR) {
			return expectFail(in, out, "rename between a directory and a non-directory")
		}
		if t.Kind == kDIR && len(t.Kids) > 0 {
			return expectFail(in, out, fmt.Sprintf("target directory %s is not empty", m.PathOf(t)))
		}
		if src.Kind != t.Kind {
			// file over symlink or symlink over file: refusal is tolerated
			if out == nil || out.Status != stOK {
				return nil
			}
		}
	}
	if !out.ok() {
		if m.spaceFail(out) {
			return nil
		}
		return mm("rename %s/%q -> %s/%q failed with status %d", m.PathOf(fd), clip(in.Name), m.PathOf(td), clip(in.Name2), out.Status)
	}
	if texists {
		tdm := m.mut(td.ID)
		delete(tdm.Kids, in.Name2)
		m.kill(tid)
	}
	fdm := m.mut(fd.ID)
	delete(fdm.Kids, in.Name)
	tdm := m.mut(td.ID)
	tdm.Kids[in.Name2] = sid
	sm := m.mut(sid)
	sm.Parent = td.ID
	return nil
}

func (m *Model) stepReaddir(in *In, out *Out) error {
	d, done, err := m.handleArg(in, out, in.Obj, "directory")
	if done {
		return err
	}
	if d.Kind != kDIR {
		return expectFail(in, out, "readdir of a non-directory")
	}
	if out == nil || in.BadCookie {
		return nil
	}
	if out.Status != stOK {
		// a limit too small for a single entry may be refused
		lim := in.Count
		if in.K == "readdirplus" {
			lim = in.Maxcnt
			if in.Dircnt < lim {
				lim = in.Dircnt
			}
		}
		if lim < 512 {
			return nil
		}
		return mm("%s of %s (cookie %d, limits %d/%d/%d) failed with status %d", in.K, m.PathOf(d), in.Cookie, in.Count, in.Dircnt, in.Maxcnt, out.Status)
	}
	seen := map[string]bool{}
	for _, e := range out.Ents {
		if seen[e.Name] {
			return mm("%s of %s returned %q twice in one reply", in.K, m.PathOf(d), clip(e.Name))
		}
		seen[e.Name] = true
		var t *MObj
		switch e.Name {
		case ".":
			t = d
		case "..":
			t = m.Objs[d.Parent]
		default:
			if id, ok := d.Kids[e.Name]; ok {
				t = m.Objs[id]
			}
		}
		if t == nil {
			return mm("%s of %s returned %q which is not in the directory", in.K, m.PathOf(d), clip(e.Name))
		}
		if e.FileID != t.FileID {
			return mm("%s of %s: entry %q has file id %d, the object's is %d", in.K, m.PathOf(d), clip(e.Name), e.FileID, t.FileID)
		}
		if e.HasH && e.H != t.H {
			return mm("%s of %s: entry %q has handle %x, the object's is %x", in.K, m.PathOf(d), clip(e.Name), e.H, t.H)
		}
		if e.Attr != nil && !m.Lenient {
			if want := m.attrOf(t); !attrEq(*e.Attr, want) {
				return mm("%s of %s: entry %q has attributes %+v, the object's are %+v", in.K, m.PathOf(d), clip(e.Name), *e.Attr, want)
			}
		}
	}
	if !out.Eof && len(out.Ents) == 0 {
		return mm("%s of %s (cookie %d) returned no entry and no end-of-directory: no progress", in.K, m.PathOf(d), in.Cookie)
	}
	if in.Cookie == 0 && out.Eof {
		for _, n := range append([]string{".", ".."}, sortedNames(d.Kids)...) {
			if !seen[n] {
				return mm("%s of %s from the start reached end-of-directory without returning %q", in.K, m.PathOf(d), clip(n))
			}
		}
	}
	return nil
}

// ---- canonical dumps ----

// MetaDump renders the tree (paths, kinds, sizes, link targets), sorted.
func (m *Model) MetaDump() string {
	var lines []string
	var walk func(o *MObj, path string)
	walk = func(o *MObj, path string) {
		switch o.Kind {
		case kDIR:
			lines = append(lines, fmt.Sprintf("%s d", path))
			for _, n := range sortedNames(o.Kids) {
				p := path + "/" + escName(n)
				if path == "/" {
					p = "/" + escName(n)
				}
				walk(m.Objs[o.Kids[n]], p)
			}
		case kREG:
			lines = append(lines, fmt.Sprintf("%s f %d", path, o.Size))
		case kLNK:
			lines = append(lines, fmt.Sprintf("%s l %q", path, o.Target))
		}
	}
	walk(m.Objs[m.Root], "/")
	return strings.Join(lines, "\n")
}

// escName renders a name for paths in dumps and reports: bytes outside
// printable ASCII, '/', '%' and space are %XX-escaped, so that a path is one
// line and splits unambiguously.
func escName(n string) string {
	clean := true
	for i := 0; i < len(n); i++ {
		c := n[i]
		if c <= 0x20 || c >= 0x7f || c == '/' || c == '%' {
			clean = false
			break
		}
	}
	if clean {
		return n
	}
	var b strings.Builder
	for i := 0; i < len(n); i++ {
		c := n[i]
		if c <= 0x20 || c >= 0x7f || c == '/' || c == '%' {
			fmt.Fprintf(&b, "%%%02X", c)
		} else {
			b.WriteByte(c)
		}
	}
	return b.String()
}
