package main

import (
	"fmt"

	"verifsim/simdisk"
	"verifsim/simrt"
)

// Deterministic probes that re-create each open known finding (DESIGN.md
// section 7). A probe reports whether the defect is still present on the
// tree under test; the check prints a KNOWN-FINDING line when it is.

var probes = map[string]func() (bool, string){
	"rename-into-subtree": probeRenameIntoSubtree,
}

func cmdProbe(name string) int {
	p, ok := probes[name]
	if !ok {
		fmt.Println("unknown probe", name)
		return 2
	}
	present, detail := p()
	emit(map[string]interface{}{"type": "probe", "name": name, "present": present, "detail": detail})
	if present {
		return 1
	}
	return 0
}

// D12: RENAME moves a directory into its own subtree (detached cycle).
func probeRenameIntoSubtree() (bool, string) {
	d := simdisk.New(3000)
	present := false
	detail := ""
	res := simrt.Run(simrt.Config{Seed: 1, Policy: "fifo", MaxSteps: 2_000_000}, func() {
		rig := startServer(d, true, 0, 257)
		root := rootHandle()
		a := rig.Call(&In{K: "mkdir", Obj: root, Name: "a"})
		b := rig.Call(&In{K: "mkdir", Obj: a.H, Name: "b"})
		if a.Status != 0 || b.Status != 0 {
			detail = "setup failed"
			return
		}
		r := rig.Call(&In{K: "rename", Obj: root, Name: "a", Obj2: b.H, Name2: "x"})
		if r.Status == 0 {
			present = true
			detail = "RENAME of /a to /a/b/x succeeded: /a is now detached from the root and contains itself"
		} else {
			detail = fmt.Sprintf("RENAME of /a to /a/b/x was refused with status %d", r.Status)
		}
	})
	if res.Outcome != nil {
		return true, "probe ended abnormally: " + res.Outcome.Kind + ": " + res.Outcome.Detail
	}
	return present, detail
}
