package main

import (
	"encoding/hex"
	"fmt"

	"github.com/mit-pdos/go-nfsd/nfstypes"
	r3 "github.com/zeldovich/go-rpcgen/rfc1813"

	"verifsim/simrt"
)

// baseMessages are well-formed call messages used as mutation bases. They are
// read-only (or aimed at handles that name nothing), so that however a
// mutation is interpreted the reference model needs no update.
func baseMessages() [][]byte {
	root := rootHandle()
	garbage := string([]byte{0xde, 0xad, 0xbe, 0xef, 0xde, 0xad, 0xbe, 0xef, 1, 2, 3, 4, 5, 6, 7, 8})
	dp := r3.Dirpath3("/x")
	return [][]byte{
		EncodeCall(7, r3.NFS_PROGRAM, r3.NFS_V3, r3.NFSPROC3_NULL, nil),
		EncodeCall(7, r3.NFS_PROGRAM, r3.NFS_V3, r3.NFSPROC3_GETATTR, &r3.GETATTR3args{Object: rfh(root)}),
		EncodeCall(7, r3.NFS_PROGRAM, r3.NFS_V3, r3.NFSPROC3_LOOKUP, &r3.LOOKUP3args{What: rdirop(root, "zz-none")}),
		EncodeCall(7, r3.NFS_PROGRAM, r3.NFS_V3, r3.NFSPROC3_READ, &r3.READ3args{File: rfh(garbage), Offset: 0, Count: 100}),
		EncodeCall(7, r3.NFS_PROGRAM, r3.NFS_V3, r3.NFSPROC3_READDIRPLUS, &r3.READDIRPLUS3args{Dir: rfh(root), Dircount: 1000, Maxcount: 1000}),
		EncodeCall(7, r3.NFS_PROGRAM, r3.NFS_V3, r3.NFSPROC3_FSINFO, &r3.FSINFO3args{Fsroot: rfh(root)}),
		EncodeCall(7, r3.NFS_PROGRAM, r3.NFS_V3, r3.NFSPROC3_WRITE, &r3.WRITE3args{File: rfh(garbage), Offset: 5, Count: 100, Stable: r3.FILE_SYNC, Data: make([]byte, 100)}),
		EncodeCall(7, r3.NFS_PROGRAM, r3.NFS_V3, r3.NFSPROC3_SETATTR, &r3.SETATTR3args{Object: rfh(garbage)}),
		EncodeCall(7, r3.MOUNT_PROGRAM, r3.MOUNT_V3, r3.MOUNTPROC3_MNT, &dp),
		EncodeCall(7, r3.MOUNT_PROGRAM, r3.MOUNT_V3, r3.MOUNTPROC3_EXPORT, nil),
	}
}

func isSpecialOp(k string) bool {
	switch k {
	case "mnt", "umnt", "umntall", "dump", "export", "mountnull", "rawmsg", "rawbytes":
		return true
	}
	return false
}

// special executes the operations that are not NFS requests with a model
// counterpart: MOUNT procedures, raw (mutated) messages, transport faults.
func (x *seqRun) special(i int, op *Op) bool {
	switch op.K {
	case "mnt", "umnt", "umntall", "dump", "export", "mountnull":
		simrt.SetTag(fmt.Sprintf("op %d mount procedure %s %q", i, op.K, clip(op.N)))
		simrt.Scope(x.rig.Group, func() {
			s := x.rig.Srv
			switch op.K {
			case "mnt":
				r := s.MOUNTPROC3_MNT(nfstypes.Dirpath3(op.N))
				if r.Fhs_status == nfstypes.MNT3_OK && string(r.Mountinfo.Fhandle) != rootHandle() {
					x.fail("model-mismatch", "mnt:handle", "MNT returned a handle that is not the root handle")
				}
			case "umnt":
				s.MOUNTPROC3_UMNT(nfstypes.Dirpath3(op.N))
			case "umntall":
				s.MOUNTPROC3_UMNTALL()
			case "dump":
				s.MOUNTPROC3_DUMP()
			case "export":
				s.MOUNTPROC3_EXPORT()
			default:
				s.MOUNTPROC3_NULL()
			}
		})
		x.res.count("mount_calls", 1)
		return true
	case "rawmsg", "rawbytes":
		c := x.rig.Conn
		if c == nil {
			return true
		}
		b, _ := hex.DecodeString(op.Msg)
		simrt.SetTag(fmt.Sprintf("op %d %s (%d bytes)", i, op.K, len(b)))
		if op.K == "rawmsg" {
			c.SendFrame(b)
		} else {
			c.SendRaw(b)
		}
		// let the server digest it; it may reply, drop the message, or end the connection
		simrt.Quiesce()
		if n := simrt.CountTasks(x.rig.Group, "server.go"); n > 0 {
			x.fail("wedged", "rpc:request-blocked", fmt.Sprintf("op %d %s: %d request handler(s) are blocked for ever after a malformed message (%s)", i, op.K, n, simrt.BlockedReport()))
		}
		for {
			if _, ok := c.TryRecvFrame(); !ok {
				break
			}
			x.res.count("raw_replies", 1)
		}
		x.res.count("raw_messages", 1)
		if op.K == "rawbytes" || c.RunDone {
			// the client gives up on this connection (or the server ended it): reconnect
			c.Close()
			simrt.Quiesce()
			if !c.RunDone {
				x.fail("wedged", "rpc:run-not-ended", fmt.Sprintf("op %d %s: the server loop did not end after the client closed the connection", i, op.K))
			}
			x.rig.Conn = x.rig.Connect()
			x.res.count("reconnects", 1)
		}
		return true
	}
	return false
}
