package main

import (
	"fmt"
	"strconv"
	"strings"

	"verifsim/simdisk"
	"verifsim/simrt"
)

func simConfig(sc SchedCfg, maxSteps uint64) simrt.Config {
	cfg := simrt.Config{
		Seed:     sc.Seed,
		Policy:   sc.Policy,
		SwitchP:  sc.SwitchP,
		PCTDepth: sc.PCTDepth,
		MaxSteps: maxSteps,
		Clock:    sc.Clock,
	}
	for _, s := range sc.Starve {
		i := strings.LastIndex(s, ":")
		if i < 0 {
			continue
		}
		w, _ := strconv.ParseFloat(s[i+1:], 64)
		cfg.Starve = append(cfg.Starve, simrt.Starve{Match: s[:i], Weight: w})
	}
	return cfg
}

// genSched draws a scheduling policy (swarm style: one per run).
func genSched(rng *simrt.Rng, seed uint64, concurrent bool) SchedCfg {
	// clock modes: 0 = monotone with random increments, 2 = jumping (also
	// backwards). A frozen clock is not a behaviour of real deployments and
	// would make any time-derived write verifier repeat, so it is not drawn.
	sc := SchedCfg{Seed: seed, Clock: []int{0, 0, 0, 2}[rng.Intn(4)]}
	switch rng.Pick([]int{6, 2, 1}) {
	case 0:
		sc.Policy = "rw"
		sc.SwitchP = []float64{0.02, 0.1, 0.3, 0.7}[rng.Intn(4)]
	case 1:
		sc.Policy = "pct"
		sc.PCTDepth = 1 + rng.Intn(3)
	default:
		sc.Policy = "rr"
	}
	// starvation profiles: slow logger / installer / shrinker
	switch rng.Pick([]int{5, 2, 2, 1, 1}) {
	case 1:
		sc.Starve = []string{"wal.go:37:0.02"}
	case 2:
		sc.Starve = []string{"wal.go:38:0.02"}
	case 3:
		sc.Starve = []string{"wal.go:37:0.02", "wal.go:38:0.02"}
	case 4:
		sc.Starve = []string{"shrinker.go:0.02"}
	}
	return sc
}

// pattern data: byte i of pattern p
func patByte(p uint64, i uint64) byte {
	x := p*0x9E3779B97F4A7C15 + i*0xBF58476D1CE4E5B9
	x ^= x >> 29
	b := byte(x) | 1 // never zero, so that "zero where unwritten" is decidable
	return b
}

func patData(p uint64, off uint64, n uint64) []byte {
	b := make([]byte, n)
	for i := uint64(0); i < n; i++ {
		b[i] = patByte(p, off+i)
	}
	return b
}

// ---- crash enumeration over a recorded disk trace ----

type CrashPoint struct {
	Event int
	Mode  string
	Mask  string
	Img   *simdisk.Image
	Open  int
}

func (cp *CrashPoint) sel() *CrashSel {
	return &CrashSel{Event: cp.Event, Mode: cp.Mode, Mask: cp.Mask}
}

type crashStats struct {
	Points   int // crash points considered
	Images   int // distinct images examined
	Subsets  int
	Skipped  int
	Barriers int
	Writes   int
}

// enumerateCrashes calls f for the image of every crash point of the trace:
// every event index with all issued writes persisted (prefix mode) and, per
// epoch, k sampled subsets of the un-barriered writes. Identical images are
// examined once. If only != nil just that point is examined.
func enumerateCrashes(base *simdisk.Image, tr []simdisk.Ev, only *CrashSel, rng *simrt.Rng, k int, maxImages int,
	st *crashStats, f func(cp *CrashPoint) *Violation) *Violation {
	cur := simdisk.NewCursor(base, tr)
	seen := map[uint64]bool{}
	for _, ev := range tr {
		switch ev.Kind {
		case simdisk.EvWrite:
			st.Writes++
		case simdisk.EvBarrier:
			st.Barriers++
		}
	}
	// when the trace is long, sample the event indices (always keeping epoch ends)
	stride := 1
	if only == nil && maxImages > 0 && len(tr) > maxImages {
		stride = (len(tr) + maxImages - 1) / maxImages
	}
	phase := 0
	if stride > 1 {
		phase = rng.Intn(stride)
	}
	for e := 0; e <= len(tr); e++ {
		if only != nil {
			if e == only.Event {
				var im *simdisk.Image
				if only.Mode == "mask" {
					m := only.Mask
					im = cur.ImageMask(func(i int) bool { return i < len(m) && m[i] == '1' })
				} else {
					im = cur.ImageAll()
				}
				return f(&CrashPoint{Event: e, Mode: only.Mode, Mask: only.Mask, Img: im, Open: cur.OpenLen()})
			}
		} else {
			epochEnd := e < len(tr) && tr[e].Kind == simdisk.EvBarrier
			isMark := e < len(tr) && tr[e].Kind == simdisk.EvMark
			if !isMark && (stride == 1 || e%stride == phase || epochEnd || e == len(tr)) {
				st.Points++
				im := cur.ImageAll()
				h := im.Hash()
				if !seen[h] {
					seen[h] = true
					st.Images++
					if v := f(&CrashPoint{Event: e, Mode: "all", Img: im, Open: cur.OpenLen()}); v != nil {
						return v
					}
				} else {
					st.Skipped++
				}
			}
			n := cur.OpenLen()
			// subset images: at every epoch end and at random points inside epochs; the
			// number of random points is scaled so that long traces stay within the budget
			pmid := 0.05
			if maxImages > 0 && len(tr) > 0 && float64(maxImages)/float64(len(tr)) < pmid {
				pmid = float64(maxImages) / float64(len(tr)) / 2
			}
			overBudget := maxImages > 0 && st.Images > 2*maxImages
			if n >= 1 && k > 0 && !overBudget && (epochEnd || e == len(tr) || (n >= 2 && rng.Chance(pmid))) {
				for j := 0; j < k; j++ {
					q := []float64{0.2, 0.5, 0.8}[rng.Intn(3)]
					mask := make([]byte, n)
					for i := range mask {
						if rng.Chance(q) {
							mask[i] = '1'
						} else {
							mask[i] = '0'
						}
					}
					if j == 0 {
						// the classic reordering case: everything but the first write
						for i := range mask {
							mask[i] = '1'
						}
						mask[rng.Intn(n)] = '0'
					}
					st.Points++
					im := cur.ImageMask(func(i int) bool { return mask[i] == '1' })
					h := im.Hash()
					if seen[h] {
						st.Skipped++
						continue
					}
					seen[h] = true
					st.Images++
					st.Subsets++
					if v := f(&CrashPoint{Event: e, Mode: "mask", Mask: string(mask), Img: im, Open: n}); v != nil {
						return v
					}
				}
			}
		}
		if e < len(tr) {
			cur.Advance()
		}
	}
	if only != nil {
		return &Violation{Kind: "harness", Sig: "crash-point-out-of-range", Detail: fmt.Sprintf("crash event %d beyond trace length %d", only.Event, len(tr))}
	}
	return nil
}

// outcomeViolation converts an abnormal simulation end into a violation.
func outcomeViolation(prop string, o *simrt.Outcome, where string) *Violation {
	if o == nil {
		return nil
	}
	sig := o.Kind + ":" + firstFrame(o)
	return &Violation{Property: prop, Kind: o.Kind, Sig: sig,
		Detail: fmt.Sprintf("%s %s: %s (task %s, doing %s)", where, o.Kind, o.Detail, o.Task, o.Tag), Stack: trimStack(o.Stack)}
}

// firstFrame picks the innermost frame of the system under test from a panic
// stack, so that signatures are stable under unrelated changes.
func firstFrame(o *simrt.Outcome) string {
	if o.Kind != "panic" {
		if o.Kind == "deadlock" || o.Kind == "budget" {
			return ""
		}
		return o.Detail
	}
	lines := strings.Split(o.Stack, "\n")
	for i, l := range lines {
		if strings.HasPrefix(l, "github.com/mit-pdos/") || strings.HasPrefix(l, "github.com/zeldovich/") || strings.HasPrefix(l, "github.com/tchajed/") {
			fn := l
			if j := strings.Index(fn, "("); j > 0 && !strings.Contains(fn[:j], "/") == false {
				// keep receiver notation, drop arguments
			}
			if j := strings.LastIndex(fn, "("); j > 0 {
				fn = fn[:j]
			}
			_ = i
			return fn + ":" + o.Detail
		}
	}
	return o.Detail
}

func trimStack(s string) string {
	lines := strings.Split(s, "\n")
	var out []string
	for _, l := range lines {
		if strings.Contains(l, "verifsim/simrt") || strings.Contains(l, "runtime/debug") || strings.Contains(l, "runtime/panic") {
			continue
		}
		out = append(out, l)
		if len(out) > 40 {
			break
		}
	}
	return strings.Join(out, "\n")
}

func containsU64(l []uint64, v uint64) bool {
	for _, x := range l {
		if x == v {
			return true
		}
	}
	return false
}
