package main

import (
	"encoding/binary"
	"encoding/hex"
	"fmt"
	"strings"
	"time"

	"github.com/anishathalye/porcupine"
	"github.com/mit-pdos/go-nfsd/nfstypes"
	"github.com/mit-pdos/go-nfsd/simple"

	"verifsim/simdisk"
	"verifsim/simrt"
)

// C17: SimpleNFS behaves as 30 files (inodes 2..31) of at most 4096 bytes.
// Oracles: the executable specification below, checked per reply
// (sequential), by porcupine (concurrent) and, for every crash point of the
// disk trace, on the recovered state (acknowledged => durable, in flight =>
// all or nothing).

type simpleEngine struct{}

func init() { register("simple", simpleEngine{}, "C17") }

const (
	sFirst = 2
	sLast  = 31
	sMax   = 4096
)

func simpleFh(ino uint64) nfstypes.Nfs_fh3 {
	b := make([]byte, 16)
	binary.LittleEndian.PutUint64(b, ino)
	return nfstypes.Nfs_fh3{Data: b}
}

var sOffsets = []uint64{0, 1, 100, 2048, 4095, 4096, 4097, 8192, 1 << 32, 1<<32 - 1, 1 << 63, 1<<64 - 1, 1<<64 - 4096, 1<<64 - 100}
var sCounts = []uint64{0, 1, 7, 100, 2048, 4095, 4096, 4097, 5000, 1<<32 - 1, 1 << 31}

// (the last entries are valid numbers with high bits set: they must not alias the
// file whose number results when those bits are dropped)
var sInums = []uint64{0, 1, 2, 2, 2, 3, 3, 3, 4, 30, 31, 32, 33, 1 << 32, 1 << 63, 1<<64 - 1,
	1<<32 + 2, 1<<32 + 3, 1<<32 + 1, 1<<16 + 2, 1<<8 + 3, 1<<63 + 2, 1<<40 + 31}

func (simpleEngine) Gen(prop string, seed uint64, tier string) *Spec {
	rng := simrt.Stream(seed, "workload")
	ncl := 1 + rng.Intn(4)
	spec := &Spec{Property: prop, Engine: "simple", Seed: seed, Tier: tier, Disk: 560 + uint64(rng.Intn(40)),
		Sched: genSched(simrt.Stream(seed, "schedcfg"), seed, ncl > 1), Knobs: map[string]int64{"subsets": 2}}
	if tier == "thorough" {
		spec.Knobs["subsets"] = 8
	}
	pat := uint64(1)
	for c := 0; c < ncl; c++ {
		n := 4 + rng.Intn(7)
		if ncl == 1 {
			n += 8
		}
		var ops []Op
		for i := 0; i < n; i++ {
			ino := sInums[rng.Intn(len(sInums))]
			if rng.Chance(0.6) {
				ino = uint64(2 + rng.Intn(2)) // contention on the same files
			}
			op := Op{X: int64(ino)}
			if rng.Chance(0.08) {
				// a handle of arbitrary length: shorter than an inode number, or longer than usual
				l := []int{0, 1, 4, 7, 8, 9, 12, 24, 64}[rng.Intn(9)]
				b := make([]byte, l)
				for j := range b {
					b[j] = byte(rng.Uint64())
				}
				if l >= 8 && rng.Chance(0.5) {
					b[0], b[1], b[2], b[3], b[4], b[5], b[6], b[7] = byte(2+rng.Intn(2)), 0, 0, 0, 0, 0, 0, 0
				}
				op.HX = hex.EncodeToString(b)
				op.Y = 1
			}
			off := sOffsets[rng.Intn(len(sOffsets))]
			if rng.Chance(0.6) {
				off = uint64(rng.Intn(4200))
			}
			if rng.Chance(0.3) {
				off = 0
			}
			cnt := sCounts[rng.Intn(len(sCounts))]
			if rng.Chance(0.6) {
				cnt = uint64(rng.Intn(4200))
			}
			switch rng.Pick([]int{10, 6, 5, 2, 1}) {
			case 4:
				op.K = "misc" // every other procedure of the simple server, with this handle
			case 0:
				op.K = "write"
				op.Off, op.Cnt = off, cnt
				op.Len = cnt
				if cnt > 8192 {
					op.Len = uint64(rng.Intn(8192))
				}
				if rng.Chance(0.15) {
					// count disagrees with the data supplied
					op.Len = uint64(rng.Intn(5000))
				}
				op.Pat = pat
				pat++
				// every acknowledged request must survive a crash, whatever stability the
				// client asked for
				op.How = rng.Intn(3)
			case 1:
				op.K = "read"
				op.Off, op.Cnt = off, cnt
			case 2:
				op.K = "setattr"
				op.Off = []uint64{0, 1, 100, 4095, 4096, 4097, 8192, 1 << 20, 1 << 32, 1 << 40, 1 << 62, 1<<64 - 1}[rng.Intn(12)]
				if rng.Chance(0.6) {
					op.Off = uint64(rng.Intn(4200))
				}
			default:
				op.K = "getattr"
			}
			ops = append(ops, op)
		}
		spec.Clients = append(spec.Clients, ops)
	}
	return spec
}

type sIn struct {
	K       string
	FH      string // explicit handle bytes (when HasFH)
	HasFH   bool
	Ino     uint64
	Off     uint64
	Cnt     uint64
	Data    []byte
	Size    uint64
	ReadAll bool
	Pending bool
	How     int // WRITE stable_how
}

type sOut struct {
	Status uint32
	Data   []byte
	Eof    bool
	Size   uint64
	Type   uint32
	Count  uint64
	Commit int
	All    []string // per file: size + content rendering
}

type sFile struct {
	size uint64
	data [sMax]byte
}

type sState struct {
	f   [sLast + 1]*sFile
	key string
}

func newSState() *sState {
	s := &sState{}
	for i := sFirst; i <= sLast; i++ {
		s.f[i] = &sFile{}
	}
	s.key = s.canon()
	return s
}

func (s *sState) canon() string {
	var b strings.Builder
	for i := sFirst; i <= sLast; i++ {
		f := s.f[i]
		if f.size == 0 && f.data == [sMax]byte{} {
			continue
		}
		fmt.Fprintf(&b, "%d:%d:%x;", i, f.size, hashString(string(f.data[:])))
	}
	return b.String()
}

func (s *sState) with(i int, f *sFile) *sState {
	n := *s
	n.f[i] = f
	n.key = n.canon()
	return &n
}

func sValid(ino uint64) bool { return ino >= sFirst && ino <= sLast }

// sStep is the executable specification: returns the allowed next states
// (none if the reply is not allowed).
func sStep(st *sState, in sIn, out sOut) []*sState {
	same := []*sState{st}
	ok := out.Status == 0
	switch in.K {
	case "misc":
		return same // no specified effect; must only return
	case "readall":
		for i := sFirst; i <= sLast; i++ {
			f := st.f[i]
			if out.All[i-sFirst] != fmt.Sprintf("%d:%x", f.size, hashString(string(f.data[:f.size]))) {
				return nil
			}
		}
		return same
	case "getattr":
		if in.Pending {
			return same
		}
		if in.Ino == 1 {
			if ok && out.Type == kDIR {
				return same
			}
			return nil
		}
		if !sValid(in.Ino) {
			if ok {
				return nil
			}
			return same
		}
		if ok && out.Size == st.f[in.Ino].size && out.Type == kREG {
			return same
		}
		return nil
	case "read":
		if in.Pending {
			return same
		}
		if !sValid(in.Ino) {
			if ok {
				return nil
			}
			return same
		}
		if !ok {
			return nil
		}
		f := st.f[in.Ino]
		var want []byte
		eof := true
		if in.Off < f.size {
			n := in.Cnt
			if n > f.size-in.Off {
				n = f.size - in.Off
			}
			want = f.data[in.Off : in.Off+n]
			eof = in.Off+n >= f.size
		}
		if string(out.Data) != string(want) || out.Eof != eof || out.Count != uint64(len(want)) {
			return nil
		}
		return same
	case "setattr":
		if !sValid(in.Ino) || in.Size > sMax {
			if ok && !in.Pending {
				return nil
			}
			return same
		}
		f := *st.f[in.Ino]
		if in.Size > f.size {
			for i := f.size; i < in.Size; i++ {
				f.data[i] = 0
			}
		}
		f.size = in.Size
		nst := st.with(int(in.Ino), &f)
		if in.Pending {
			return []*sState{st, nst}
		}
		if !ok {
			return nil
		}
		return []*sState{nst}
	case "write":
		bad := !sValid(in.Ino) || in.Cnt != uint64(len(in.Data)) || in.Off+in.Cnt < in.Off || in.Off+in.Cnt > sMax
		if !bad && in.Off > st.f[in.Ino].size {
			bad = true // would leave a hole
		}
		if bad {
			if ok && !in.Pending {
				return nil
			}
			return same
		}
		f := *st.f[in.Ino]
		copy(f.data[in.Off:], in.Data)
		if in.Off+in.Cnt > f.size {
			f.size = in.Off + in.Cnt
		}
		nst := st.with(int(in.Ino), &f)
		if in.Pending {
			return []*sState{st, nst}
		}
		if !ok || out.Count != in.Cnt || out.Commit < in.How {
			return nil
		}
		return []*sState{nst}
	}
	return nil
}

func simpleModel() porcupine.Model {
	nm := porcupine.NondeterministicModel{
		Init: func() []interface{} { return []interface{}{newSState()} },
		Step: func(state, input, output interface{}) []interface{} {
			var out []interface{}
			for _, s := range sStep(state.(*sState), input.(sIn), output.(sOut)) {
				out = append(out, s)
			}
			return out
		},
		Equal: func(a, b interface{}) bool { return a.(*sState).key == b.(*sState).key },
		Hash:  func(a interface{}) uint64 { return hashString(a.(*sState).key) },
	}
	return nm.ToModel()
}

type sRec struct {
	client    int
	in        sIn
	out       sOut
	call, ret int64
	mark      int
}

func simpleCall(nfs *simple.Nfs, in sIn) sOut {
	var out sOut
	fh := simpleFh(in.Ino)
	if in.HasFH {
		fh = nfstypes.Nfs_fh3{Data: []byte(in.FH)}
	}
	switch in.K {
	case "misc":
		d := nfstypes.Diropargs3{Dir: fh, Name: nfstypes.Filename3([]string{"a", "b", "", "zz"}[in.Off%4])}
		nfs.NFSPROC3_NULL()
		nfs.NFSPROC3_LOOKUP(nfstypes.LOOKUP3args{What: d})
		nfs.NFSPROC3_ACCESS(nfstypes.ACCESS3args{Object: fh})
		nfs.NFSPROC3_READLINK(nfstypes.READLINK3args{Symlink: fh})
		nfs.NFSPROC3_CREATE(nfstypes.CREATE3args{Where: d})
		nfs.NFSPROC3_MKDIR(nfstypes.MKDIR3args{Where: d})
		nfs.NFSPROC3_SYMLINK(nfstypes.SYMLINK3args{Where: d})
		nfs.NFSPROC3_MKNOD(nfstypes.MKNOD3args{Where: d})
		nfs.NFSPROC3_REMOVE(nfstypes.REMOVE3args{Object: d})
		nfs.NFSPROC3_RMDIR(nfstypes.RMDIR3args{Object: d})
		nfs.NFSPROC3_RENAME(nfstypes.RENAME3args{From: d, To: d})
		nfs.NFSPROC3_LINK(nfstypes.LINK3args{File: fh, Link: d})
		nfs.NFSPROC3_READDIR(nfstypes.READDIR3args{Dir: fh, Cookie: nfstypes.Cookie3(in.Off), Count: nfstypes.Count3(in.Cnt)})
		nfs.NFSPROC3_READDIRPLUS(nfstypes.READDIRPLUS3args{Dir: fh, Cookie: nfstypes.Cookie3(in.Off)})
		nfs.NFSPROC3_FSSTAT(nfstypes.FSSTAT3args{Fsroot: fh})
		nfs.NFSPROC3_FSINFO(nfstypes.FSINFO3args{Fsroot: fh})
		nfs.NFSPROC3_PATHCONF(nfstypes.PATHCONF3args{Object: fh})
		nfs.NFSPROC3_COMMIT(nfstypes.COMMIT3args{File: fh, Offset: nfstypes.Offset3(in.Off), Count: nfstypes.Count3(in.Cnt)})
		nfs.MOUNTPROC3_NULL()
		nfs.MOUNTPROC3_MNT(nfstypes.Dirpath3("/x"))
		nfs.MOUNTPROC3_EXPORT()
	case "getattr":
		r := nfs.NFSPROC3_GETATTR(nfstypes.GETATTR3args{Object: fh})
		out.Status = uint32(r.Status)
		out.Size = uint64(r.Resok.Obj_attributes.Size)
		out.Type = uint32(r.Resok.Obj_attributes.Ftype)
	case "setattr":
		r := nfs.NFSPROC3_SETATTR(nfstypes.SETATTR3args{Object: fh, New_attributes: nfstypes.Sattr3{Size: nfstypes.Set_size3{Set_it: true, Size: nfstypes.Size3(in.Size)}}})
		out.Status = uint32(r.Status)
	case "read":
		r := nfs.NFSPROC3_READ(nfstypes.READ3args{File: fh, Offset: nfstypes.Offset3(in.Off), Count: nfstypes.Count3(in.Cnt)})
		out.Status = uint32(r.Status)
		out.Data = r.Resok.Data
		out.Eof = r.Resok.Eof
		out.Count = uint64(r.Resok.Count)
	case "write":
		d := make([]byte, len(in.Data))
		copy(d, in.Data)
		r := nfs.NFSPROC3_WRITE(nfstypes.WRITE3args{File: fh, Offset: nfstypes.Offset3(in.Off), Count: nfstypes.Count3(in.Cnt), Stable: nfstypes.Stable_how(in.How), Data: d})
		out.Status = uint32(r.Status)
		out.Count = uint64(r.Resok.Count)
		out.Commit = int(r.Resok.Committed)
	}
	return out
}

func simpleReadAll(nfs *simple.Nfs) []string {
	var all []string
	for i := uint64(sFirst); i <= sLast; i++ {
		a := simpleCall(nfs, sIn{K: "getattr", Ino: i})
		r := simpleCall(nfs, sIn{K: "read", Ino: i, Off: 0, Cnt: 8192})
		if a.Status != 0 || r.Status != 0 || a.Size != uint64(len(r.Data)) {
			all = append(all, fmt.Sprintf("inconsistent: getattr status %d size %d, read status %d %d bytes", a.Status, a.Size, r.Status, len(r.Data)))
			continue
		}
		all = append(all, fmt.Sprintf("%d:%x", a.Size, hashString(string(r.Data))))
	}
	return all
}

func (simpleEngine) Exec(spec *Spec) *Result {
	res := &Result{}
	d := simdisk.New(spec.Disk)
	var recs []*sRec
	var evseq int64
	var final []string
	sim := simrt.Run(simConfig(spec.Sched, 3_000_000), func() {
		var nfs *simple.Nfs
		simrt.Scope(1, func() { nfs = simple.MakeNfs(d) })
		if nfs == nil {
			simrt.Fail("model-mismatch", "simple.MakeNfs failed on a fresh disk")
		}
		var wg simrt.WaitGroup
		for c, ops := range spec.Clients {
			c, ops := c, ops
			wg.Add(1)
			simrt.Go(fmt.Sprintf("client%d", c), func() {
				defer wg.Done()
				for i, op := range ops {
					in := sIn{K: op.K, Ino: uint64(op.X), Off: op.Off, Cnt: op.Cnt}
					if op.Y == 1 {
						b, _ := hex.DecodeString(op.HX)
						in.FH, in.HasFH = string(b), true
						// the inode number such a handle denotes: its first 8 bytes; none if shorter
						in.Ino = 0
						if len(b) >= 8 {
							in.Ino = binary.LittleEndian.Uint64(b)
						}
					}
					switch op.K {
					case "write":
						in.Data = patData(op.Pat, 0, op.Len)
						in.Cnt = uint64(uint32(op.Cnt)) // count3 is 32 bits on the wire
						in.How = op.How
					case "read":
						in.Cnt = uint64(uint32(op.Cnt))
					case "setattr":
						in.Size = op.Off
					}
					r := &sRec{client: c, in: in, mark: len(recs)}
					recs = append(recs, r)
					simrt.SetTag(fmt.Sprintf("client %d op %d %s ino=%d off=%d cnt=%d datalen=%d size=%d", c, i, in.K, in.Ino, in.Off, in.Cnt, len(in.Data), in.Size))
					evseq++
					r.call = evseq
					d.Mark(r.mark, 0)
					simrt.Scope(1, func() { r.out = simpleCall(nfs, in) })
					d.Mark(r.mark, 1)
					evseq++
					r.ret = evseq
					simrt.SetTag("")
				}
			})
		}
		wg.Wait()
		simrt.SetTag("final read-back")
		final = simpleReadAll(nfs)
		simrt.Quiesce()
	})
	res.Fingerprint = sim.Fingerprint
	res.SchedPrint = sim.SchedPrint
	res.Steps = sim.Stats.Steps
	res.SimNanos = sim.Stats.SimNanos
	if v := outcomeViolation(spec.Property, sim.Outcome, "main run"); v != nil {
		res.Viol = v
		return res
	}
	res.Nontrivial = len(recs) >= 3
	model := simpleModel()
	var hist []porcupine.Operation
	for _, r := range recs {
		hist = append(hist, porcupine.Operation{ClientId: r.client, Input: r.in, Output: r.out, Call: r.call, Return: r.ret})
	}
	hist = append(hist, porcupine.Operation{ClientId: len(spec.Clients), Input: sIn{K: "readall"}, Output: sOut{All: final}, Call: evseq + 1, Return: evseq + 2})
	switch porcupine.CheckOperationsTimeout(model, hist, 20*time.Second) {
	case porcupine.Illegal:
		res.Viol = &Violation{Property: spec.Property, Kind: "spec-mismatch", Sig: "simple:" + simpleBlame(recs, final, len(spec.Clients)),
			Detail: "the history is not a linearizable execution of the SimpleNFS specification: " + simpleHist(recs)}
		return res
	case porcupine.Unknown:
		res.Inconcl++
	}
	res.count("histories_checked", 1)
	// crash points
	invokeAt := map[int]int{}
	returnAt := map[int]int{}
	for i, ev := range d.Trace {
		if ev.Kind == simdisk.EvMark {
			if ev.B == 0 {
				invokeAt[ev.A] = i
			} else {
				returnAt[ev.A] = i
			}
		}
	}
	// the format (MakeNfs on the empty disk) is not a client request: start after it
	start := 0
	if len(recs) > 0 {
		start = invokeAt[0]
	}
	base := simdisk.NewCursor(d.Base, d.Trace[:start])
	for base.Pos() < start {
		base.Advance()
	}
	var cst crashStats
	crng := simrt.Stream(spec.Seed, "crash")
	v := enumerateCrashes(base.ImageAll(), d.Trace[start:], spec.Crash, crng, int(spec.knob("subsets", 2)), 300, &cst, func(cp *CrashPoint) *Violation {
		ev := cp.Event + start
		var all []string
		d2 := simdisk.FromImage(cp.Img)
		sc := spec.Sched
		sc.Seed ^= cp.Img.Hash()
		sim2 := simrt.Run(simConfig(sc, 1_000_000), func() {
			var nfs *simple.Nfs
			simrt.Scope(1, func() { nfs = simple.MakeNfs(d2) })
			if nfs == nil {
				simrt.Fail("crash-state", "simple.MakeNfs failed on a crash image")
			}
			simrt.SetTag("read-back after recovery")
			all = simpleReadAll(nfs)
			// the recovered server keeps working
			w := simpleCall(nfs, sIn{K: "write", Ino: 31, Off: 0, Cnt: 5, Data: []byte("hello")})
			r := simpleCall(nfs, sIn{K: "read", Ino: 31, Off: 0, Cnt: 5})
			if w.Status != 0 || string(r.Data) != "hello" {
				simrt.Fail("crash-state", "after recovery a write is not read back")
			}
		})
		if v := outcomeViolation(spec.Property, sim2.Outcome, fmt.Sprintf("crash before disk event %d (%s %s): recovery", ev, cp.Mode, cp.Mask)); v != nil {
			return v
		}
		res.StateHashes = append(res.StateHashes, cp.Img.Hash())
		const crashT = int64(1) << 40
		var h []porcupine.Operation
		for _, r := range recs {
			inv, okI := invokeAt[r.mark]
			ret, okR := returnAt[r.mark]
			if !okI || inv >= ev {
				continue
			}
			if r.in.K == "misc" {
				continue
			}
			if (r.in.K == "read" || r.in.K == "getattr") && !(okR && ret < ev) {
				continue // an observer that had not returned tells nothing
			}
			// Acknowledged READ and GETATTR replies are part of the crash history: the
			// specification has no volatile state, so what a client was shown must still
			// be there after the crash (the server holds the file's lock until its
			// transaction is on disk, so an observer never sees an unflushed write).
			if okR && ret < ev {
				h = append(h, porcupine.Operation{ClientId: r.client, Input: r.in, Output: r.out, Call: r.call, Return: r.ret})
			} else {
				in := r.in
				in.Pending = true
				h = append(h, porcupine.Operation{ClientId: r.client, Input: in, Output: sOut{}, Call: r.call, Return: crashT})
			}
		}
		h = append(h, porcupine.Operation{ClientId: len(spec.Clients), Input: sIn{K: "readall"}, Output: sOut{All: all}, Call: crashT + 1, Return: crashT + 2})
		switch porcupine.CheckOperationsTimeout(model, h, 20*time.Second) {
		case porcupine.Illegal:
			return &Violation{Property: spec.Property, Kind: "crash-state", Sig: "simple-crash-state",
				Detail: fmt.Sprintf("crash before disk event %d (%s %s, %d un-barriered writes): the recovered files %v are not explained by the requests acknowledged or in flight: %s",
					ev, cp.Mode, cp.Mask, cp.Open, compact(all), simpleHist(recs))}
		case porcupine.Unknown:
			res.Inconcl++
		}
		return nil
	})
	res.count("crash_points", int64(cst.Points))
	res.count("crash_images", int64(cst.Images))
	res.count("crash_subset_images", int64(cst.Subsets))
	if v != nil {
		v.Property = spec.Property
		res.Viol = v
	}
	return res
}

func compact(all []string) []string {
	var out []string
	for i, s := range all {
		if !strings.HasPrefix(s, "0:") {
			out = append(out, fmt.Sprintf("ino%d=%s", i+sFirst, s))
		}
	}
	return out
}

// simpleBlame names the kind of the operation that completes the shortest
// non-linearizable prefix.
func simpleBlame(recs []*sRec, final []string, ncl int) string {
	model := simpleModel()
	for n := 1; n <= len(recs); n++ {
		var hist []porcupine.Operation
		// prefix by return order
		cnt := 0
		var last *sRec
		for _, r := range recs {
			if r.ret <= int64(2*n) {
				hist = append(hist, porcupine.Operation{ClientId: r.client, Input: r.in, Output: r.out, Call: r.call, Return: r.ret})
				cnt++
				if last == nil || r.ret > last.ret {
					last = r
				}
			}
		}
		if cnt == 0 {
			continue
		}
		if porcupine.CheckOperationsTimeout(model, hist, 5*time.Second) == porcupine.Illegal {
			return last.in.K
		}
	}
	return "final-state"
}

func simpleHist(recs []*sRec) string {
	var b strings.Builder
	for _, r := range recs {
		fmt.Fprintf(&b, "[c%d %s ino=%d", r.client, r.in.K, r.in.Ino)
		switch r.in.K {
		case "write":
			fmt.Fprintf(&b, " off=%d cnt=%d datalen=%d", r.in.Off, r.in.Cnt, len(r.in.Data))
		case "read":
			fmt.Fprintf(&b, " off=%d cnt=%d", r.in.Off, r.in.Cnt)
		case "setattr":
			fmt.Fprintf(&b, " size=%d", r.in.Size)
		}
		fmt.Fprintf(&b, " @%d-%d -> st=%d", r.call, r.ret, r.out.Status)
		switch r.in.K {
		case "read":
			fmt.Fprintf(&b, " %d bytes eof=%v", len(r.out.Data), r.out.Eof)
		case "getattr":
			fmt.Fprintf(&b, " size=%d", r.out.Size)
		}
		b.WriteString("] ")
	}
	return b.String()
}
