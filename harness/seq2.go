package main

import (
	"fmt"
	"strings"

	"github.com/mit-pdos/go-journal/common"
	"github.com/mit-pdos/go-journal/jrnl"
	"github.com/mit-pdos/go-nfsd/dcache"
	"github.com/mit-pdos/go-nfsd/dir"
	"github.com/mit-pdos/go-nfsd/inode"
	"github.com/mit-pdos/go-nfsd/nfstypes"

	"verifsim/simdisk"
	"verifsim/simrt"
)

type dcacheDentry = dcache.Dentry

// RawAttr renders the complete attributes GETATTR returns.
func (r *Rig) RawAttr(h string) string {
	var s string
	simrt.Scope(r.Group, func() {
		rep := r.Srv.NFSPROC3_GETATTR(nfstypes.GETATTR3args{Object: fh3(h)})
		s = fmt.Sprintf("st=%d %+v", rep.Status, rep.Resok.Obj_attributes)
	})
	return s
}

// RawList renders a complete READDIRPLUS listing with all attributes.
func (r *Rig) RawList(h string) string {
	var b strings.Builder
	simrt.Scope(r.Group, func() {
		cookie := nfstypes.Cookie3(0)
		for i := 0; i < 10000; i++ {
			rep := r.Srv.NFSPROC3_READDIRPLUS(nfstypes.READDIRPLUS3args{Dir: fh3(h), Cookie: cookie, Dircount: 1 << 20, Maxcount: 1 << 20})
			if rep.Status != 0 {
				fmt.Fprintf(&b, "  readdirplus status %d\n", rep.Status)
				return
			}
			n := 0
			for e := rep.Resok.Reply.Entries; e != nil; e = e.Nextentry {
				fmt.Fprintf(&b, "  %q id=%d cookie=%d h=%x attr=%+v\n", string(e.Name), e.Fileid, e.Cookie, e.Name_handle.Handle.Data, e.Name_attributes)
				cookie = e.Cookie
				n++
			}
			if rep.Resok.Reply.Eof || n == 0 {
				return
			}
		}
	})
	return b.String()
}

// readFileBytes reads n bytes at off of an on-disk inode through the journal
// operation op (holes read as zeroes).
func readFileBytes(r *Rig, op *jrnl.Op, ip *inode.Inode, off, n uint64) ([]byte, bool) {
	if off+n > ip.Size {
		return nil, false
	}
	st := r.Srv.VerifFsState()
	sup := st.Super
	blks := ip.VerifBlks()
	idx := off / 4096
	var bn uint64
	switch {
	case idx < inode.NDIRECT:
		bn = blks[idx]
	case idx < inode.NDIRECT+inode.NBLKBLK:
		if ib := blks[inode.INDIRECT]; ib != 0 {
			bn = op.ReadBuf(sup.Block2addr(ib), common.NBITBLOCK).BnumGet((idx - inode.NDIRECT) * 8)
		}
	default:
		j := idx - inode.NDIRECT - inode.NBLKBLK
		if db := blks[inode.DINDIRECT]; db != 0 {
			l1 := op.ReadBuf(sup.Block2addr(db), common.NBITBLOCK).BnumGet((j / inode.NBLKBLK) * 8)
			if l1 != 0 {
				bn = op.ReadBuf(sup.Block2addr(l1), common.NBITBLOCK).BnumGet((j % inode.NBLKBLK) * 8)
			}
		}
	}
	out := make([]byte, n)
	if bn != 0 {
		copy(out, op.ReadBuf(sup.Block2addr(bn), common.NBITBLOCK).Data[off%4096:off%4096+n])
	}
	return out, true
}

func decodeDirEntSafe(raw []byte) (ino uint64, name string) {
	defer func() {
		if p := recover(); p != nil {
			if simrt.IsKill(p) {
				panic(p)
			}
			ino, name = ^uint64(0), "<undecodable>"
		}
	}()
	return dir.VerifDecodeDirEnt(raw)
}

// ---- C09: audit around failing operations ----

type failAudit struct {
	snap     string
	freeB    uint64
	freeI    uint64
	shrinker bool
}

func (x *seqRun) beforeAudit() *failAudit {
	simrt.Quiesce()
	st := x.rig.Srv.VerifFsState()
	return &failAudit{snap: rawSnapshot(x.rig, x.m), freeB: st.Balloc.NumFree(), freeI: st.Ialloc.NumFree(),
		shrinker: x.rig.Srv.VerifShrinkerThreads() > 0}
}

func (x *seqRun) afterFailAudit(i int, in *In, out *Out, a *failAudit) {
	simrt.Quiesce()
	st := x.rig.Srv.VerifFsState()
	where := fmt.Sprintf("op %d %s failed with status %d", i, describeIn(in), out.Status)
	if s := rawSnapshot(x.rig, x.m); s != a.snap {
		x.fail("failed-op-effect", "failed-op:visible-change:"+in.K, where+" but changed what clients observe: "+firstDiff(s, a.snap))
	}
	fb, fi := st.Balloc.NumFree(), st.Ialloc.NumFree()
	idle := !a.shrinker && x.rig.Srv.VerifShrinkerThreads() == 0
	if fb < a.freeB || fi < a.freeI || (idle && (fb != a.freeB || fi != a.freeI)) {
		x.fail("failed-op-effect", "failed-op:space-consumed:"+in.K, fmt.Sprintf("%s but free blocks went %d -> %d and free inodes %d -> %d", where, a.freeB, fb, a.freeI, fi))
	}
	if err := cacheCoherence(x.rig); err != nil {
		x.fail("failed-op-effect", "failed-op:cache:"+err.(*fsckErr).clause, where+" and left the cache different from the disk: "+err.Error())
	}
	x.res.count("failed_op_audits", 1)
}

// ---- C08: every dead handle in every procedure and position ----

func (x *seqRun) deadSweep() {
	dead := x.m.DeadObjs()
	if len(dead) > 8 {
		dead = dead[len(dead)-8:]
	}
	root := x.m.Objs[x.m.Root].H
	for _, o := range dead {
		if o.H == "" {
			continue
		}
		simrt.SetTag("dead-handle sweep")
		h := o.H
		ins := []*In{
			{K: "getattr", Obj: h}, {K: "setattr", Obj: h, SetSz: true, Size: 1}, {K: "lookup", Obj: h, Name: "a"}, {K: "access", Obj: h},
			{K: "readlink", Obj: h}, {K: "read", Obj: h, Count: 10}, {K: "write", Obj: h, Count: 3, Data: []byte("abc"), How: 2},
			{K: "create", Obj: h, Name: "zz1", How: 1}, {K: "mkdir", Obj: h, Name: "zz2"}, {K: "symlink", Obj: h, Name: "zz3", Data: []byte("t")},
			{K: "remove", Obj: h, Name: "a"}, {K: "rmdir", Obj: h, Name: "a"},
			{K: "rename", Obj: h, Name: "a", Obj2: root, Name2: "zz4"}, {K: "rename", Obj: root, Name: "a", Obj2: h, Name2: "zz5"},
			{K: "rename", Obj: h, Name: "a", Obj2: h, Name2: "zz6"},
			{K: "readdir", Obj: h, Count: 4096}, {K: "readdirplus", Obj: h, Dircnt: 4096, Maxcnt: 4096},
			{K: "fsinfo", Obj: h}, {K: "pathconf", Obj: h}, {K: "commit", Obj: h},
			// degenerate arguments (nothing to do) must not bypass the handle check either
			{K: "write", Obj: h, Count: 0, Data: []byte{}, How: 2}, {K: "write", Obj: h, Off: 4096, Count: 0, Data: []byte{}, How: 0},
			{K: "read", Obj: h, Count: 0}, {K: "setattr", Obj: h}, {K: "commit", Obj: h, Off: 1, Count: 1},
			{K: "readdir", Obj: h, Count: 0}, {K: "readdirplus", Obj: h},
		}
		for _, in := range ins {
			x.checked(in)
			x.res.count("dead_handle_uses", 1)
		}
	}
}

// ---- P: crash-prefix refinement over every crash point of the trace ----

func (x *seqRun) crashEnumeration() *Violation {
	spec := x.spec
	tr := x.d.Trace[x.traceStart:]
	n := len(x.states) - 1
	invokeAt := make([]int, n)
	returnAt := make([]int, n)
	for i := range invokeAt {
		invokeAt[i] = 1 << 30
		returnAt[i] = 1 << 30
	}
	for i, ev := range tr {
		if ev.Kind == simdisk.EvMark && ev.A < n {
			if ev.B == 0 {
				invokeAt[ev.A] = i
			} else {
				returnAt[ev.A] = i
			}
		}
	}
	metas := make([]string, len(x.states))
	for j, s := range x.states {
		metas[j] = s.metaSorted()
	}
	var cst crashStats
	crng := simrt.Stream(spec.Seed, "crash")
	maxImg := 250
	if spec.Tier == "thorough" {
		maxImg = 1500
	}
	nested := 0
	v := enumerateCrashes(x.base, tr, spec.Crash, crng, int(spec.knob("subsets", 2)), maxImg, &cst, func(cp *CrashPoint) *Violation {
		lo, hi := 0, 0
		for j := 0; j < n; j++ {
			if x.stable[j] && returnAt[j] < cp.Event {
				lo = j + 1
			}
			if invokeAt[j] < cp.Event {
				hi = j + 1
			}
		}
		x.res.StateHashes = append(x.res.StateHashes, cp.Img.Hash())
		doNested := (spec.Crash != nil && spec.Crash.Next != nil) || (spec.Crash == nil && crng.Chance(0.06) && nested < 6)
		v, tr2, st2 := x.checkImage(cp.Img, x.states, metas, lo, hi, fmt.Sprintf("crash before disk event %d (%s %s; %d un-barriered writes; operations %d..%d may be included)", cp.Event, cp.Mode, cp.Mask, cp.Open, lo, hi), doNested)
		if v != nil {
			return v
		}
		if doNested && tr2 != nil {
			nested++
			var cst2 crashStats
			var only *CrashSel
			if spec.Crash != nil {
				only = spec.Crash.Next
			}
			// a second crash during recovery / right after it: the state must again be one of
			// the continuation's prefixes
			m2 := make([]string, len(st2.states))
			for j, s := range st2.states {
				m2[j] = s.metaSorted()
			}
			v := enumerateCrashes(cp.Img, tr2, only, crng, 1, 25, &cst2, func(cp2 *CrashPoint) *Violation {
				lo2, hi2 := 0, 0
				for j := 0; j < len(st2.states)-1; j++ {
					if st2.stable[j] && st2.returnAt[j] < cp2.Event {
						lo2 = j + 1
					}
					if st2.invokeAt[j] < cp2.Event {
						hi2 = j + 1
					}
				}
				v, _, _ := x.checkImage(cp2.Img, st2.states, m2, lo2, hi2,
					fmt.Sprintf("crash before disk event %d (%s %s), recovery, then a second crash before recovery-run event %d (%s %s)", cp.Event, cp.Mode, cp.Mask, cp2.Event, cp2.Mode, cp2.Mask), false)
				return v
			})
			x.res.count("nested_crash_images", int64(cst2.Images))
			if v != nil {
				return v
			}
		}
		return nil
	})
	x.res.count("crash_points", int64(cst.Points))
	x.res.count("crash_images", int64(cst.Images))
	x.res.count("crash_subset_images", int64(cst.Subsets))
	return v
}

type contHist struct {
	states   []*Model
	stable   []bool
	invokeAt []int
	returnAt []int
}

// checkImage recovers a server from img and requires its state to be one of
// states[lo..hi] (tree, sizes, link targets, every byte, handles), the
// structure to be well formed, and further operations to behave. It returns
// the trace of the recovery run and the continuation history (for nesting).
func (x *seqRun) checkImage(img *simdisk.Image, states []*Model, metas []string, lo, hi int, where string, wantTrace bool) (*Violation, []simdisk.Ev, *contHist) {
	spec := x.spec
	d := simdisk.FromImage(img)
	var viol *Violation
	var ch *contHist
	fail := func(kind, sig, detail string) {
		if viol == nil {
			viol = &Violation{Property: spec.Property, Kind: kind, Sig: sig, Detail: where + ": " + detail}
		}
		simrt.Fail("violation", detail)
	}
	sc := spec.Sched
	sc.Seed ^= img.Hash()
	sim := simrt.Run(simConfig(sc, 10_000_000), func() {
		simrt.SetTag("recovery")
		rig := startServer(d, spec.knob("unstable", 1) != 0, spec.knob("icache", 0), spec.knob("nshard", 0))
		rootH := states[0].Objs[states[0].Root].H
		simrt.SetTag("dump after recovery")
		ents, err := dumpTree(rig, rootH)
		if err != nil {
			fail("crash-state", sigOf("crash-dump", err.Error()), "the recovered server cannot be walked: "+err.Error())
		}
		meta := metaOfDump(ents)
		var m *Model
		var lastErr error
		matched := -1
		for j := hi; j >= lo; j-- {
			if metas[j] != meta {
				continue
			}
			cand := states[j].Clone()
			cand.VerfSeen = false
			if err := verifyAgainst(rig, cand, ents, true); err != nil {
				lastErr = fmt.Errorf("compared with the state after %d operations: %v", j, err)
				continue
			}
			m = cand
			matched = j
			x.res.count(fmt.Sprintf("recovered_to_hi_minus_%d", min(hi-j, 3)), 1)
			break
		}
		if m == nil {
			if lastErr != nil {
				fail("crash-state", sigOf("crash-data", lastErr.Error()), "the recovered tree matches an allowed state but not its contents: "+lastErr.Error())
			}
			fail("crash-state", "crash-state:no-prefix", fmt.Sprintf("the recovered tree equals no state between operation %d and %d: versus the newest allowed: %s; versus the oldest allowed: %s",
				lo, hi, firstDiff(meta, metas[hi]), firstDiff(meta, metas[lo])))
		}
		// structure
		simrt.Quiesce()
		info, err := fsck(rig, x.nameMax)
		if err != nil {
			fail("fsck", "fsck:"+err.(*fsckErr).clause, "after recovery: "+err.Error())
		}
		if err := conservation(info); err != nil {
			fail("conservation", "conservation:"+err.(*fsckErr).clause, "after recovery: "+err.Error())
		}
		if live := len(m.LiveObjs()); info.InodesInUse != live {
			fail("conservation", "conservation:inode-count", fmt.Sprintf("after recovery %d inodes are in use, the matching reference state has %d objects", info.InodesInUse, live))
		}
		x.res.count("images_recovered", 1)
		if info.HalfFreed > 0 {
			x.res.count("probe_crash_during_free", 1)
		}
		// continuation: the recovered server keeps serving correctly
		simrt.SetTag("continuation after recovery")
		ch = &contHist{states: []*Model{m.Clone()}}
		step := func(in *In, stable bool) *Out {
			k := len(ch.states) - 1
			d.Mark(k, 0)
			ch.invokeAt = append(ch.invokeAt, len(d.Trace)-1)
			out := rig.Call(in)
			d.Mark(k, 1)
			ch.returnAt = append(ch.returnAt, len(d.Trace)-1)
			if err := m.Step(in, out); err != nil {
				fail("crash-state", sigOf("continuation-"+in.K, err.Error()), "operation after recovery: "+describeIn(in)+": "+err.Error())
			}
			ch.stable = append(ch.stable, stable && stableAck(in, out))
			ch.states = append(ch.states, m.Clone())
			return out
		}
		root := m.Objs[m.Root]
		name := "zz-after-crash"
		if _, exists := root.Kids[name]; !exists {
			c := step(&In{K: "create", Obj: rootH, Name: name, How: 1}, true)
			if c.Status == 0 {
				data := patData(0xC0FFEE, 0, 6000)
				w := step(&In{K: "write", Obj: c.H, Off: 100, Count: 6000, Data: data, How: 2}, true)
				if w.Verf != "" {
					for _, v := range x.verfs {
						if v == w.Verf {
							fail("verifier", "verifier:same-after-crash", "the write verifier after crash recovery equals the one of the crashed instance; clients cannot detect lost unstable writes")
						}
					}
				}
				step(&In{K: "read", Obj: c.H, Off: 0, Count: 7000}, false)
				step(&In{K: "rename", Obj: rootH, Name: name, Obj2: rootH, Name2: name + "2"}, true)
				step(&In{K: "remove", Obj: rootH, Name: name + "2"}, true)
			}
		}
		// a file whose truncation the crash interrupted is removed: touching it must
		// release everything it still holds ("blocks still held by a half-freed object
		// are released when the object's number is next reused or touched")
		if len(info.LiveShrinking) > 0 {
			held := map[uint64]bool{}
			for _, ino := range info.HalfFreedInos {
				held[ino] = true
			}
			for _, o := range m.LiveObjs() {
				victim := o.FileID
				if !containsU64(info.LiveShrinking, victim) {
					continue
				}
				if o.Kind != kREG || o.Size == 0 {
					// (an empty file's remainder is reclaimed lazily, when its inode number is
					// reused: the other branch of "reused or touched"; see DESIGN.md)
					continue
				}
				par := m.Objs[o.Parent]
				for nm, id := range par.Kids {
					if id == o.ID {
						step(&In{K: "remove", Obj: par.H, Name: nm}, true)
						break
					}
				}
				simrt.WaitUntil("background shrinker to finish", func() bool { return rig.Srv.VerifShrinkerThreads() == 0 })
				simrt.Quiesce()
				if i2, err := fsck(rig, x.nameMax); err != nil {
					fail("fsck", "fsck:"+err.(*fsckErr).clause, "after removing a file whose truncation the crash had interrupted: "+err.Error())
				} else {
					for _, ino := range i2.HalfFreedInos {
						if ino == victim && !held[ino] {
							fail("conservation", "conservation:interrupted-truncate-then-remove", fmt.Sprintf("a file (inode %d) whose background truncation the crash had interrupted was removed after recovery; the freeing has finished but the free inode still holds blocks (%s)", ino, i2.HalfFreedWhat))
						}
					}
				}
				x.res.count("probe_remove_after_interrupted_truncate", 1)
				break
			}
		}
		// reuse of half-freed inode numbers: create objects until every number that a
		// crash left half-freed has been handed out again (the allocator of a restarted
		// server hands out the lowest free number first), then check the structure:
		// the creating request must have finished the freeing, and nothing else may
		// have been marked or leaked on the way
		if info.HalfFreed > 0 {
			// (a request that is handed a half-freed number finishes the freeing, gives the
			// number back and takes the next one: the allocator has passed a number once a
			// larger one was handed out)
			maxPending, maxGot := uint64(0), uint64(0)
			for _, ino := range info.HalfFreedInos {
				maxPending = max(maxPending, ino)
			}
			made := 0
			for made < 48 && maxGot <= maxPending && viol == nil {
				nm := fmt.Sprintf("zz-reuse%d", made)
				made++
				if _, exists := m.Objs[m.Root].Kids[nm]; exists {
					continue
				}
				c := step(&In{K: "create", Obj: rootH, Name: nm, How: 1}, true)
				if c.Status != 0 || len(c.H) < 8 {
					break
				}
				got := uint64(0)
				for k := 7; k >= 0; k-- {
					got = got<<8 | uint64(c.H[k])
				}
				maxGot = max(maxGot, got)
			}
			if maxGot > maxPending {
				x.res.count("probe_allocator_passed_half_freed_inums", 1)
			}
			if viol == nil {
				simrt.WaitUntil("background shrinker to finish", func() bool { return rig.Srv.VerifShrinkerThreads() == 0 })
				simrt.Quiesce()
				if i4, err := fsck(rig, x.nameMax); err != nil {
					fail("fsck", "fsck:"+err.(*fsckErr).clause, fmt.Sprintf("after recovery and %d creates that reuse half-freed inode numbers: %s", made, err.Error()))
				} else if err := conservation(i4); err != nil {
					fail("conservation", "conservation:"+err.(*fsckErr).clause, fmt.Sprintf("after recovery and %d creates that reuse half-freed inode numbers: %s", made, err.Error()))
				} else if maxGot > maxPending {
					for _, ino := range i4.HalfFreedInos {
						if containsU64(info.HalfFreedInos, ino) {
							fail("conservation", "conservation:half-freed-after-reuse", fmt.Sprintf("inode %d was half-freed at the crash; after recovery the allocator has handed out numbers up to %d, yet the free inode still holds blocks (%s)", ino, maxGot, i4.HalfFreedWhat))
						}
					}
				}
			}
		}
		// generated continuation: the operations of the history that the crash cut
		// off are issued again, against the recovered server and the matching
		// reference state ("the recovered server keeps serving further operations
		// correctly" - on the objects, caches and allocator state that recovery left)
		firstLevel := len(states) == len(x.states) && states[0] == x.states[0]
		if firstLevel && matched >= 0 && viol == nil {
			budget := 6
			if spec.Tier == "thorough" {
				budget = 12
			}
			if img.Hash()%3 == 0 {
				budget *= 3
			}
			tbl := map[int]string{}
			for id, at := range x.tblAt {
				if at < matched {
					tbl[id] = x.tbl[id]
				}
			}
			ops := spec.Clients[0]
			done := 0
			for i := matched; i < len(ops) && done < budget && viol == nil; i++ {
				op := &ops[i]
				if op.K == "restart" || op.K == "fillto" {
					break
				}
				if isSpecialOp(op.K) {
					continue
				}
				in := toIn(op, tbl, &m.Lim)
				if in == nil {
					continue
				}
				simrt.SetTag(fmt.Sprintf("continuation after recovery: op %d %s issued again", i, describeIn(in)))
				before := m.NextID
				out := step(in, true)
				if m.NextID > before {
					tbl[op.ID] = out.H
				}
				done++
			}
			x.res.count("continuation_replayed_ops", int64(done))
			if done > 0 && viol == nil {
				simrt.WaitUntil("background shrinker to finish", func() bool { return rig.Srv.VerifShrinkerThreads() == 0 })
				simrt.Quiesce()
				if i3, err := fsck(rig, x.nameMax); err != nil {
					fail("fsck", "fsck:"+err.(*fsckErr).clause, fmt.Sprintf("after recovery and %d further operations: %s", done, err.Error()))
				} else if err := conservation(i3); err != nil {
					fail("conservation", "conservation:"+err.(*fsckErr).clause, fmt.Sprintf("after recovery and %d further operations: %s", done, err.Error()))
				}
				if err := cacheCoherence(rig); err != nil {
					fail("coherence", sigOf("coherence", err.Error()), fmt.Sprintf("after recovery and %d further operations: %s", done, err.Error()))
				}
			}
		}
		simrt.Quiesce()
	})
	if viol != nil {
		return viol, nil, nil
	}
	if v := outcomeViolation(spec.Property, sim.Outcome, where+": recovery/continuation"); v != nil {
		return v, nil, nil
	}
	if wantTrace {
		return nil, d.Trace, ch
	}
	return nil, nil, nil
}
