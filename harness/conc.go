package main

import (
	"fmt"
	"io"
	"os"
	"sort"
	"strings"
	"sync"
	"time"

	"github.com/anishathalye/porcupine"

	"verifsim/simdisk"
	"verifsim/simrt"
)

// The concurrent engine: 2-4 clients issue RPCs on a small shared namespace
// under a seeded schedule; the recorded history (invoke/return stamped with a
// global event counter) is checked for linearizability against the reference
// model with porcupine (C03); deadlock / livelock are detected by the
// simulator itself (C06); the same workloads run under the race detector
// (C14).

type concEngine struct{}

func init() { register("conc", concEngine{}, "C03", "C06", "C14") }

// handle slots of a client program: negative = objects made by the setup
// phase, >= 0 = handle returned by the client's own op with that index.
const (
	slotRoot  = -1
	slotD1    = -2
	slotD2    = -3
	slotF1    = -4
	slotF2    = -5
	slotBig   = -6
	slotSub   = -7  // d1/sub (a directory inside d1)
	slotBig2  = -8  // a second large file (knob big=2)
	slotGone  = -9  // a directory removed during the set-up: its handle is stale
	slotGoneF = -10 // a file removed during the set-up
	slotRd    = -11 // knob replace: the directory with the highest inode number of the set-up
	slotRf    = -12 // knob replace: a file inside it whose inode number is smaller than the directory's
)

var concNames = []string{"a", "b", "c"}

func (concEngine) Gen(prop string, seed uint64, tier string) *Spec {
	rng := simrt.Stream(seed, "workload")
	ncl := 2 + rng.Intn(3)
	maxops := 6
	if tier == "thorough" {
		maxops = 8
	}
	spec := &Spec{Property: prop, Engine: "conc", Seed: seed, Tier: tier, Disk: uint64(3000 + rng.Intn(3000)),
		Sched: genSched(simrt.Stream(seed, "schedcfg"), seed, true),
		Knobs: map[string]int64{"unstable": int64(rng.Intn(2)), "icache": 0, "nshard": 257, "big": int64(rng.Intn(4) / 3), "recycle": int64(rng.Intn(2))}}
	if rng.Chance(0.25) {
		spec.Knobs["icache"] = 3
	}
	if prop == "C14" {
		spec.Knobs["big"] = int64(rng.Intn(2))
	}
	if prop == "C06" {
		spec.Knobs["recycle"] = 1
	}
	// allocators that hand out the lowest free number (a just-freed block or inode
	// number is reused at once, also by another client) in a third of the runs
	if rng.Chance(0.33) {
		spec.Knobs["alloc_lowest"] = 1
	}
	// restart before the concurrent phase: cold caches, and the allocator hands out low
	// inode numbers again, so objects created by the clients have smaller numbers than
	// their parent directories (the abort-and-relock paths)
	spec.Knobs["cold"] = int64(rng.Intn(2))
	if rng.Chance(0.4) || (prop == "C06" && rng.Chance(0.3)) {
		// directed preemption: hold one client at its n-th inode-lock acquisition until
		// every other client is blocked or done
		spec.Knobs["direct_task"] = int64(rng.Intn(ncl))
		spec.Knobs["direct_n"] = int64(rng.Intn(10))
	}
	// conflict focus: most operations of a run target one directory and one or two names
	focusDir := []int{slotRoot, slotD1, slotD1, slotD2, slotSub}[rng.Intn(5)]
	focusName := concNames[rng.Intn(len(concNames))]
	focusName2 := concNames[rng.Intn(len(concNames))]
	focus := rng.Chance(0.7)
	if prop != "C14" && prop != "C07" && rng.Chance(0.08) {
		// directory moves: concurrent renames of the shared directories into each
		// other's subtrees (the tree must stay a tree whatever the interleaving)
		spec.Knobs["dirmoves"] = 1
		focus = false
		if rng.Chance(0.4) {
			// kind flip: one client replaces the file d1/a by a directory (removes it,
			// then renames d1/sub to that name or makes a directory there) while another
			// client, held at one of its lock acquisitions, renames / removes / looks up
			// that name: whatever a request decided from the kind of the object it saw
			// first must be decided again when it acts
			spec.Knobs["flip"] = 1
			spec.Knobs["direct_task"] = 1
			spec.Knobs["direct_n"] = int64(rng.Intn(4))
		}
	} else if prop != "C14" && prop != "C01" && prop != "C07" && rng.Chance(0.08) {
		// two large files in the root, and most operations on them by handle and by
		// name: two background shrinkers at once, truncations, removals and renames of
		// files whose freeing is still in progress
		spec.Knobs["big"] = 2
		spec.Disk += 3000
		focus, focusDir, focusName, focusName2 = true, slotRoot, "big", "big2"
	}
	// a quarter of the runs: every client talks to the real RPC server loop over its own
	// simulated connection (XDR codec, request-buffer pool, one handler goroutine per request)
	if prop != "C14" && rng.Chance(0.25) {
		spec.Knobs["rpc"] = 1
	}
	if prop != "C14" && rng.Chance(0.2) {
		spec.Knobs["halffreed"] = 1
		spec.Disk += 2000
	}
	if (prop == "C03" || prop == "C06") && spec.Knobs["dirmoves"] == 0 && spec.Knobs["big"] != 2 && rng.Chance(0.05) {
		// replace mode: one client moves a file out of a directory, removes the
		// directory, makes a new one under the same name and moves the file back -
		// and because the server was just restarted and the directory had the
		// highest inode number, the new directory gets the old one's inode number.
		// The other clients work on the old directory's handle meanwhile (no
		// inode-allocating requests, so that the number really is reused), one of
		// them held at an inode-lock acquisition: every request that drops its
		// locks and re-locks must notice that its handle died in between.
		spec.Knobs["replace"] = 1
		spec.Knobs["cold"] = 1
		delete(spec.Knobs, "halffreed")
		if ncl < 3 && rng.Chance(0.5) {
			ncl = 3
		}
		spec.Knobs["direct_task"] = int64(1 + rng.Intn(ncl-1))
		spec.Knobs["direct_n"] = int64(rng.Intn(7))
	}
	if prop != "C14" && spec.Knobs["replace"] == 0 && spec.Knobs["flip"] == 0 && rng.Chance(0.04) {
		// free-and-allocate family: one client frees the blocks of a small file inside
		// its transaction (RENAME over it, REMOVE, truncation) while the others write
		// blocks that their files do not have yet, with allocators that hand out the
		// lowest free number: a block may change hands only when the free has
		// committed
		spec.Knobs["freealloc"] = 1
		spec.Knobs["alloc_lowest"] = 1
	}
	if prop == "C01" {
		// crash mode: the disk is cut off at points of the concurrent phase's write
		// stream; all writes are stable, so every acknowledged operation must survive
		spec.Knobs["crashc"] = 1
	}
	if prop == "C07" {
		// crash mode with all three stability levels and COMMITs: a write answered
		// UNSTABLE may be lost unless a COMMIT or a stable operation was acknowledged
		// after it; everything else acknowledged must survive
		spec.Knobs["crashc"] = 2
		spec.Knobs["unstable"] = 0
		if rng.Chance(0.75) {
			spec.Knobs["unstable"] = 1
		}
	}
	pat := uint64(1)
	for c := 0; c < ncl; c++ {
		n := 3 + rng.Intn(maxops-2)
		var ops []Op
		if spec.Knobs["replace"] == 1 {
			if c == 0 {
				ops = []Op{{K: "rename", H: slotRd, N: "a", H2: slotRoot, N2: "tmpx"}, {K: "rmdir", H: slotRoot, N: "rd"},
					{K: "mkdir", H: slotRoot, N: "rd"}, {K: "rename", H: slotRoot, N: "tmpx", H2: 2, N2: "a"}}
				if rng.Chance(0.3) {
					ops = append(ops, Op{K: "lookup", H: 2, N: "a"})
				}
			} else {
				nm := func() string { return []string{"a", "a", "a", "b", "..", "tmpx"}[rng.Intn(6)] }
				ds := func() int { return []int{slotRd, slotRd, slotRd, slotRoot}[rng.Intn(4)] }
				for i := 0; i < 1+rng.Intn(3); i++ {
					switch rng.Pick([]int{10, 6, 3, 6, 2, 2, 2}) {
					case 0:
						ops = append(ops, Op{K: "remove", H: slotRd, N: nm()})
					case 1:
						ops = append(ops, Op{K: "lookup", H: slotRd, N: nm()})
					case 2:
						ops = append(ops, Op{K: "rmdir", H: slotRd, N: nm()})
					case 3:
						ops = append(ops, Op{K: "rename", H: slotRd, N: nm(), H2: ds(), N2: []string{"a", "b", "c"}[rng.Intn(3)]})
					case 4:
						ops = append(ops, Op{K: "readdirplus", H: slotRd, Len: 100000})
					case 5:
						ops = append(ops, Op{K: "getattr", H: []int{slotRd, slotRf}[rng.Intn(2)]})
					case 6:
						ops = append(ops, Op{K: "write", H: slotRf, Off: 0, Len: 100, Cnt: 100, Pat: pat, How: 2})
						pat++
					}
				}
			}
			spec.Clients = append(spec.Clients, ops)
			continue
		}
		dirSlot := func() int {
			if rng.Chance(0.03) {
				return slotGone // every procedure must answer a stale handle as such, also under concurrency
			}
			if focus && rng.Chance(0.75) {
				return focusDir
			}
			return []int{slotRoot, slotD1, slotD1, slotD2, slotD2, slotSub}[rng.Intn(6)]
		}
		name := func() string {
			if focus && rng.Chance(0.7) {
				if rng.Chance(0.6) {
					return focusName
				}
				return focusName2
			}
			if rng.Chance(0.07) {
				return []string{".", ".."}[rng.Intn(2)]
			}
			if rng.Chance(0.05) || (spec.Knobs["dirmoves"] == 1 && rng.Chance(0.6)) {
				// the shared directories themselves, by name (rename onto / of an ancestor)
				return []string{"d1", "d2", "sub"}[rng.Intn(3)]
			}
			return concNames[rng.Intn(len(concNames))]
		}
		fileSlot := func() int {
			// a handle this client obtained itself, or one of the shared files
			var own []int
			for i, o := range ops {
				if o.K == "lookup" || o.K == "create" {
					own = append(own, i)
				}
			}
			if len(own) > 0 && rng.Chance(0.5) {
				return own[rng.Intn(len(own))]
			}
			if rng.Chance(0.02) {
				return slotGoneF
			}
			if spec.Knobs["big"] == 2 && rng.Chance(0.7) {
				return []int{slotBig, slotBig2}[rng.Intn(2)]
			}
			return []int{slotF1, slotF2, slotF1, slotBig}[rng.Intn(4)]
		}
		for i := 0; i < n; i++ {
			var op Op
			weights := []int{10, 8, 10, 12, 8, 6, 5, 4, 6, 3, 3, 2, 2, 3}
			if prop == "C07" {
				// mostly writes (two thirds UNSTABLE) and COMMITs on a few files; little else,
				// because every stable operation flushes the log and closes the windows
				weights = []int{3, 2, 2, 45, 5, 4, 1, 1, 1, 0, 3, 0, 1, 1}
			}
			if spec.Knobs["dirmoves"] == 1 {
				// mostly renames, of and into the shared directories
				weights = []int{4, 3, 40, 2, 1, 1, 6, 4, 6, 4, 1, 1, 1, 1}
			}
			if spec.Knobs["big"] == 2 {
				// truncations, removals and renames of the two large files
				weights = []int{4, 12, 14, 14, 8, 30, 3, 2, 1, 1, 4, 0, 1, 2}
			}
			switch rng.Pick(weights) {
			case 0:
				op = Op{K: "create", H: dirSlot(), N: name(), How: rng.Intn(2)}
				if rng.Chance(0.12) {
					// fails late (after an inode was allocated): an aborted transaction that modified state
					op.N = strings.Repeat("L", 113+rng.Intn(3))
				}
			case 1:
				op = Op{K: "remove", H: dirSlot(), N: name()}
			case 2:
				op = Op{K: "rename", H: dirSlot(), N: name(), H2: dirSlot(), N2: name()}
				if rng.Chance(0.08) {
					op.N2 = strings.Repeat("L", 113+rng.Intn(3)) // refused after the source was unlinked in memory
				}
			case 3:
				op = Op{K: "write", H: fileSlot(), Off: uint64(rng.Intn(3)) * 2048, Len: uint64(1 + rng.Intn(5000)), Pat: pat, How: rng.Intn(3)}
				if rng.Chance(0.3) {
					// a block the file does not have yet: every such write allocates
					op.Off = uint64(rng.Intn(12)) * 4096
				}
				if rng.Chance(0.05) {
					// a write of (nearly) the announced maximum: a transaction that fills half of the log
					op.Off = uint64(rng.Intn(3)) * 300 * 4096
					op.Len = uint64(200+rng.Intn(56)) * 4096
					if rng.Chance(0.5) {
						op.Len = 255 * 4096
					}
				}
				op.Cnt = op.Len
				pat++
				if prop == "C01" {
					op.How = 1 + rng.Intn(2)
				}
				if prop == "C07" && rng.Chance(0.6) {
					op.How = 0
				}
			case 4:
				op = Op{K: "read", H: fileSlot(), Off: uint64(rng.Intn(2)) * 2048, Len: 8192}
			case 5:
				op = Op{K: "setattr", H: fileSlot(), Off: uint64(rng.Intn(4)) * 1500}
				if spec.Knobs["big"] != 0 && rng.Chance(0.3) {
					// cut to a few bytes / grow again by several blocks: what a write across the
					// new end of file left in the old blocks must not come back
					op.Off = []uint64{100, 700, 9000, 20000}[rng.Intn(4)]
				}
			case 6:
				op = Op{K: "lookup", H: dirSlot(), N: name()}
				if rng.Chance(0.2) {
					op.N = []string{".", ".."}[rng.Intn(2)]
				}
			case 7:
				op = Op{K: "readdirplus", H: dirSlot(), Len: 100000}
			case 8:
				op = Op{K: "mkdir", H: dirSlot(), N: name()}
				if rng.Chance(0.12) {
					op.N = strings.Repeat("L", 113+rng.Intn(3))
				}
			case 9:
				op = Op{K: "rmdir", H: dirSlot(), N: name()}
			case 10:
				op = Op{K: "getattr", H: fileSlot()}
			case 11:
				op = Op{K: "readdir", H: dirSlot(), Len: 100000}
			case 12:
				op = Op{K: "symlink", H: dirSlot(), N: name(), Len: 5, Pat: pat}
				pat++
			case 13:
				op = Op{K: "access", H: fileSlot()}
				if rng.Chance(0.3) {
					op.H = dirSlot()
				}
			}
			if prop == "C07" {
				if op.K == "create" {
					op.How = 1 // GUARDED: a successful create always makes a new object
				}
				if rng.Chance(0.3) {
					op = Op{K: "commit", H: fileSlot()}
				}
			}
			ops = append(ops, op)
		}
		if spec.Knobs["freealloc"] == 1 {
			var script []Op
			if c == 0 {
				script = []Op{[]Op{
					{K: "rename", H: slotD2, N: "b", H2: slotD1, N2: "a"},
					{K: "rename", H: slotD1, N: "a", H2: slotD2, N2: "b"},
					{K: "rename", H: slotD2, N: "b", H2: slotD1, N2: "a"},
					{K: "remove", H: slotD1, N: "a"},
					{K: "remove", H: slotD2, N: "b"},
					{K: "setattr", H: slotF2, Off: 0},
				}[rng.Intn(6)]}
			} else {
				for k := 0; k < 1+rng.Intn(2); k++ {
					how := 1 + rng.Intn(2)
					if prop == "C07" {
						how = rng.Intn(3)
					}
					script = append(script, Op{K: "write", H: []int{slotBig, slotBig, slotF1, slotF2}[rng.Intn(4)], Off: uint64(1+rng.Intn(40)) * 4096,
						Len: uint64(1 + rng.Intn(5000)), Pat: pat, How: how})
					script[len(script)-1].Cnt = script[len(script)-1].Len
					pat++
				}
			}
			if len(ops) > 1 {
				ops = ops[:1]
			}
			for i := range ops {
				if ops[i].H >= 0 {
					ops[i].H += len(script)
				}
				if ops[i].K == "rename" && ops[i].H2 >= 0 {
					ops[i].H2 += len(script)
				}
			}
			ops = append(script, ops...)
		}
		if spec.Knobs["flip"] == 1 && c < 2 {
			var script []Op
			if c == 0 {
				script = []Op{{K: "remove", H: slotD1, N: "a"}, {K: "rename", H: slotD1, N: "sub", H2: slotD1, N2: "a"}}
				if rng.Chance(0.3) {
					script[1] = Op{K: "mkdir", H: slotD1, N: "a"}
				}
			} else {
				script = []Op{[]Op{
					{K: "rename", H: slotD1, N: "a", H2: slotSub, N2: "x"},
					{K: "rename", H: slotD1, N: "a", H2: slotSub, N2: "x"},
					{K: "rename", H: slotD1, N: "a", H2: slotD2, N2: "x"},
					{K: "rename", H: slotD2, N: "b", H2: slotD1, N2: "a"},
					{K: "remove", H: slotD1, N: "a"},
					{K: "rmdir", H: slotD1, N: "a"},
					{K: "lookup", H: slotD1, N: "a"},
				}[rng.Intn(7)]}
			}
			if len(ops) > 2 {
				ops = ops[:2]
			}
			for i := range ops {
				if ops[i].H >= 0 {
					ops[i].H += len(script)
				}
				if ops[i].K == "rename" && ops[i].H2 >= 0 {
					ops[i].H2 += len(script)
				}
			}
			ops = append(script, ops...)
		}
		spec.Clients = append(spec.Clients, ops)
	}
	return spec
}

type concRec struct {
	client    int
	in        *In
	out       *Out
	call, ret int64
}

// porcupine state wrapper: canonical rendering for equality
type pState struct {
	m       *Model
	key     string
	keyOK   bool
	crashed bool
}

// pagesHash is a content hash of a regular file's pages. Pages are immutable
// once stored in a model object (writes replace them), so the hash of a page
// is cached by the identity of its slice; the object's hash combines the page
// hashes order-independently. The cache lives for one run.
var (
	pageHashMu    sync.Mutex
	pageHashCache = map[*byte]uint64{}
)

func resetPageHashCache() {
	pageHashMu.Lock()
	pageHashCache = map[*byte]uint64{}
	pageWriteCache = map[pwKey][]byte{}
	internPages = true
	pageHashMu.Unlock()
}

func (o *MObj) pagesHash() uint64 {
	pageHashMu.Lock()
	defer pageHashMu.Unlock()
	var x uint64
	for pg, p := range o.Pages {
		if len(p) == 0 {
			continue
		}
		h, ok := pageHashCache[&p[0]]
		if !ok {
			h = uint64(1469598103934665603)
			for _, c := range p {
				h = (h ^ uint64(c)) * 1099511628211
			}
			pageHashCache[&p[0]] = h
		}
		y := (h ^ (pg+1)*0x9E3779B97F4A7C15) * 0xBF58476D1CE4E5B9
		x += y ^ y>>31
	}
	return x
}

func (m *Model) canon() string {
	var b strings.Builder
	b.WriteString(m.metaSorted())
	for _, o := range m.LiveObjs() {
		// the binding path -> object identity is part of the state (two states with
		// the same tree shape but swapped objects are different)
		fmt.Fprintf(&b, "|%s=%x:%d", m.PathOf(o), o.H, o.FileID)
		if o.Kind == kREG {
			fmt.Fprintf(&b, ":%x", o.pagesHash())
		}
	}
	// dead handles matter too (stale detection)
	dead := 0
	for _, o := range m.DeadObjs() {
		dead++
		fmt.Fprintf(&b, "|x%x", o.H)
	}
	return b.String()
}

// pStep is the step function of the history checkers. Crash histories add
// two things to the plain reference model: an operation that had not returned
// when the disk was cut off (Pending) either took effect before the crash,
// with exactly the reply it produced, or - placed after the first post-crash
// observation - did not happen at all.
func pStep(st *pState, in *In, out *Out) (*pState, error) {
	if in.Pending && st.crashed {
		return st, nil
	}
	m := st.m.Clone()
	if err := m.Step(in, out); err != nil {
		return nil, err
	}
	return &pState{m: m, crashed: st.crashed || in.PostCrash}, nil
}

// Key is the canonical rendering of a state, computed when the checker first
// compares or hashes it.
func (st *pState) Key() string {
	if !st.keyOK {
		st.key = st.m.canon()
		if st.crashed {
			st.key += "|crashed"
		}
		st.keyOK = true
	}
	return st.key
}

func nfsPorcupineModel(init *Model) porcupine.Model {
	return porcupine.Model{
		Init: func() interface{} { return &pState{m: init} },
		Step: func(state, input, output interface{}) (bool, interface{}) {
			ns, err := pStep(state.(*pState), input.(*In), output.(*Out))
			if err != nil {
				return false, nil
			}
			return true, ns
		},
		Equal: func(a, b interface{}) bool { return a.(*pState).Key() == b.(*pState).Key() },
		Hash:  func(a interface{}) uint64 { return hashString(a.(*pState).Key()) },
		DescribeOperation: func(input, output interface{}) string {
			return describeIn(input.(*In))
		},
	}
}

type concRun struct {
	spec        *Spec
	res         *Result
	d           *simdisk.Disk
	rig         *Rig
	m           *Model
	recs        []*concRec
	evseq       int64
	viol        *Violation
	setup       map[int]string
	inv         int64 // lock-order inversions observed
	blameDetail string
	base        *simdisk.Image // disk image at the start of the concurrent phase
	traceStart  int
	rootH       string
}

func (x *concRun) fail(kind, sig, detail string) {
	if x.viol == nil {
		x.viol = &Violation{Property: x.spec.Property, Kind: kind, Sig: sig, Detail: detail}
	}
	simrt.Fail("violation", detail)
}

func (x *concRun) setupCall(in *In) *Out {
	out := x.rig.Call(in)
	if err := x.m.Step(in, out); err != nil {
		x.fail("model-mismatch", sigOf("setup-"+in.K, err.Error()), "setup: "+describeIn(in)+": "+err.Error())
	}
	return out
}

func (x *concRun) main() {
	spec := x.spec
	x.rig = startServer(x.d, spec.knob("unstable", 1) != 0, spec.knob("icache", 0), spec.knob("nshard", 0))
	rootH := rootHandle()
	ra := x.rig.Call(&In{K: "getattr", Obj: rootH})
	if ra.Status != 0 || ra.Attr == nil {
		x.fail("model-mismatch", "root-getattr", "GETATTR of the root handle fails on a fresh file system")
	}
	x.m = NewModel(rootH, ra.Attr.FileID)
	x.m.Lenient = true
	x.setupCall(&In{K: "fsinfo", Obj: rootH})
	x.setupCall(&In{K: "pathconf", Obj: rootH})
	x.setup = map[int]string{slotRoot: rootH}
	x.rootH = rootH
	halfFreed := spec.knob("halffreed", 0) != 0
	if halfFreed {
		// the lowest inode number belongs to a large file that is removed just before
		// a crash: its blocks are still being freed when the server comes back, and the
		// first allocation of the concurrent phase is handed that inode (the creating
		// RPC aborts, helps with the freeing over several transactions, and retries)
		hf := x.setupCall(&In{K: "create", Obj: rootH, Name: "halffreed", How: 1})
		for off := uint64(0); off < 1300*4096; off += 100 * 4096 {
			x.setupCall(&In{K: "write", Obj: hf.H, Off: off, Count: 100 * 4096, Data: patData(950+off, 0, 100*4096), How: 0})
		}
		x.setupCall(&In{K: "commit", Obj: hf.H})
	}
	if spec.knob("recycle", 0) != 0 {
		// make inode numbers of parents larger than those of (later) children:
		// create and remove a few objects first so that numbers are reused
		var hs []string
		for i := 0; i < 4; i++ {
			o := x.setupCall(&In{K: "create", Obj: rootH, Name: fmt.Sprintf("tmp%d", i), How: 1})
			hs = append(hs, o.H)
		}
		d1 := x.setupCall(&In{K: "mkdir", Obj: rootH, Name: "d1"})
		d2 := x.setupCall(&In{K: "mkdir", Obj: rootH, Name: "d2"})
		for i := 0; i < 4; i++ {
			x.setupCall(&In{K: "remove", Obj: rootH, Name: fmt.Sprintf("tmp%d", i)})
		}
		x.setup[slotD1], x.setup[slotD2] = d1.H, d2.H
	} else {
		x.setup[slotD1] = x.setupCall(&In{K: "mkdir", Obj: rootH, Name: "d1"}).H
		x.setup[slotD2] = x.setupCall(&In{K: "mkdir", Obj: rootH, Name: "d2"}).H
	}
	x.setup[slotGone] = x.setupCall(&In{K: "mkdir", Obj: rootH, Name: "gone"}).H
	x.setup[slotGoneF] = x.setupCall(&In{K: "create", Obj: rootH, Name: "gonef", How: 1}).H
	x.setupCall(&In{K: "rmdir", Obj: rootH, Name: "gone"})
	x.setupCall(&In{K: "remove", Obj: rootH, Name: "gonef"})
	x.setup[slotF1] = x.setupCall(&In{K: "create", Obj: x.setup[slotD1], Name: "a", How: 1}).H
	x.setup[slotF2] = x.setupCall(&In{K: "create", Obj: x.setup[slotD2], Name: "b", How: 1}).H
	x.setup[slotSub] = x.setupCall(&In{K: "mkdir", Obj: x.setup[slotD1], Name: "sub"}).H
	x.setupCall(&In{K: "write", Obj: x.setup[slotF1], Off: 0, Count: 3000, Data: patData(900, 0, 3000), How: 2})
	// (every shared file owns blocks: a rename over it or its removal frees something)
	x.setupCall(&In{K: "write", Obj: x.setup[slotF2], Off: 0, Count: 5000, Data: patData(899, 0, 5000), How: 2})
	big := x.setupCall(&In{K: "create", Obj: rootH, Name: "big", How: 1})
	x.setup[slotBig] = big.H
	if spec.knob("big", 0) != 0 {
		// a file long enough that truncating / removing it runs the background shrinker
		for off := uint64(0); off < 700*4096; off += 100 * 4096 {
			x.setupCall(&In{K: "write", Obj: big.H, Off: off, Count: 100 * 4096, Data: patData(901+off, 0, 100*4096), How: 0})
		}
		x.setupCall(&In{K: "commit", Obj: big.H})
	}
	if spec.knob("big", 0) == 2 {
		big2 := x.setupCall(&In{K: "create", Obj: rootH, Name: "big2", How: 1})
		x.setup[slotBig2] = big2.H
		for _, h := range []string{big.H, big2.H} {
			for off := uint64(700 * 4096); off < 1300*4096; off += 100 * 4096 {
				x.setupCall(&In{K: "write", Obj: h, Off: off, Count: 100 * 4096, Data: patData(902+off, 0, 100*4096), How: 0})
			}
		}
		for off := uint64(0); off < 700*4096; off += 100 * 4096 {
			x.setupCall(&In{K: "write", Obj: big2.H, Off: off, Count: 100 * 4096, Data: patData(903+off, 0, 100*4096), How: 0})
		}
		x.setupCall(&In{K: "commit", Obj: big2.H})
	}
	if spec.knob("replace", 0) != 0 {
		// fill the inode numbers the set-up freed (a restarted allocator hands out
		// the lowest free number first), then make a file and, after it, a directory:
		// the directory has the highest number in use, the file inside it a smaller one
		x.rig.Shutdown()
		x.rig = startServer(x.d, x.rig.Unstable, spec.knob("icache", 0), spec.knob("nshard", 0))
		x.m.VerfSeen = false
		nfill := 2
		if spec.knob("recycle", 0) != 0 {
			nfill += 4
		}
		for i := 0; i < nfill; i++ {
			x.setupCall(&In{K: "create", Obj: rootH, Name: fmt.Sprintf("fill%d", i), How: 1})
		}
		x.setup[slotRf] = x.setupCall(&In{K: "create", Obj: rootH, Name: "rf", How: 1}).H
		x.setup[slotRd] = x.setupCall(&In{K: "mkdir", Obj: rootH, Name: "rd"}).H
		x.setupCall(&In{K: "rename", Obj: rootH, Name: "rf", Obj2: x.setup[slotRd], Name2: "a"})
	}
	if halfFreed {
		x.setupCall(&In{K: "remove", Obj: rootH, Name: "halffreed"})
		simrt.Scope(x.rig.Group, func() { x.rig.Srv.Crash() })
		x.rig = startServer(x.d, x.rig.Unstable, spec.knob("icache", 0), spec.knob("nshard", 0))
		x.m.VerfSeen = false
		x.res.count("setup_half_freed_inode", 1)
	} else if spec.knob("cold", 0) != 0 {
		x.rig.Shutdown()
		x.rig = startServer(x.d, x.rig.Unstable, spec.knob("icache", 0), spec.knob("nshard", 0))
		x.m.VerfSeen = false
	}
	init := x.m.Clone()
	if spec.knob("alloc_lowest", 0) != 0 {
		simrt.AllocLowest = true
		defer func() { simrt.AllocLowest = false }()
	}
	crashc := spec.knob("crashc", 0) != 0
	if crashc {
		simrt.Quiesce()
		x.base = x.d.Current()
		x.traceStart = len(x.d.Trace)
	}

	// lock-order monitor (probe) and directed preemption
	held := map[int][]uint64{}
	dirTask := spec.knob("direct_task", -1)
	dirN := spec.knob("direct_n", 0)
	acq := map[int]int64{}
	hook := func(t *simrt.Task, kind int, addr uint64) {
		switch kind {
		case 0:
			for _, h := range held[t.ID] {
				if h > addr {
					x.inv++
				}
			}
			if dirTask >= 0 && t.Name == fmt.Sprintf("client%d", dirTask) {
				if acq[t.ID] == dirN {
					simrt.HoldUntilOthersStuck()
				}
				acq[t.ID]++
			}
		case 1:
			held[t.ID] = append(held[t.ID], addr)
		case 2:
			hs := held[t.ID]
			for i, h := range hs {
				if h == addr {
					held[t.ID] = append(hs[:i:i], hs[i+1:]...)
					break
				}
			}
		}
	}
	if !simrt.RaceEnabled {
		// the monitor's own bookkeeping is shared between tasks by design; it
		// is left out of race-detector builds (C14 needs neither)
		simrt.LockHook = hook
	}
	defer func() { simrt.LockHook = nil }()

	var wg simrt.WaitGroup
	for c, ops := range spec.Clients {
		c, ops := c, ops
		wg.Add(1)
		simrt.Go(fmt.Sprintf("client%d", c), func() {
			defer wg.Done()
			got := map[int]string{}
			var conn *Conn
			if spec.knob("rpc", 0) != 0 {
				conn = x.rig.Connect()
			}
			slot := func(s int) (string, bool) {
				if s < 0 {
					h, ok := x.setup[s]
					return h, ok
				}
				h, ok := got[s]
				return h, ok
			}
			for i := range ops {
				op := &ops[i]
				in := &In{K: op.K, Name: op.N, Name2: op.N2}
				var ok bool
				if in.Obj, ok = slot(op.H); !ok {
					continue
				}
				switch op.K {
				case "rename":
					if in.Obj2, ok = slot(op.H2); !ok {
						continue
					}
				case "write":
					in.Off, in.Count, in.How = op.Off, op.Cnt, op.How
					in.Data = patData(op.Pat, 0, op.Len)
				case "read":
					in.Off, in.Count = op.Off, op.Len
				case "setattr":
					in.SetSz, in.Size = true, op.Off
				case "create":
					in.How = op.How
				case "symlink":
					in.Data = []byte("tgt" + fmt.Sprint(op.Pat))
				case "readdir":
					in.Count = op.Len
				case "readdirplus":
					in.Dircnt, in.Maxcnt = op.Len, op.Len
				}
				simrt.SetTag(fmt.Sprintf("client %d op %d %s", c, i, describeIn(in)))
				r := &concRec{client: c, in: in}
				r.call = x.stamp()
				id := x.addRec(r)
				if crashc {
					x.d.Mark(id, 0)
				}
				var out *Out
				if conn != nil {
					out = conn.CallRPC(in)
					if out.RPCErr != "" {
						x.fail("rpc", sigOf("rpc-"+in.K, out.RPCErr), describeIn(in)+": "+out.RPCErr)
					}
				} else {
					out = x.rig.Call(in)
				}
				if crashc {
					x.d.Mark(id, 1)
				}
				r.ret = x.stamp()
				r.out = out
				if out.Status == 0 && out.HasH {
					got[i] = out.H
					if in.K == "mkdir" && spec.knob("replace", 0) != 0 && len(out.H) >= 8 && len(x.setup[slotRd]) >= 8 && out.H[:8] == x.setup[slotRd][:8] {
						x.res.count("probe_inum_reused_while_old_handle_in_use", 1)
					}
				}
				simrt.SetTag("")
			}
		})
	}
	if spec.Property == "C14" {
		// statistics are read while requests run
		wg.Add(1)
		simrt.Go("stats", func() {
			defer wg.Done()
			for i := 0; i < 3; i++ {
				simrt.Scope(x.rig.Group, func() {
					x.rig.Srv.WriteOpStats(io.Discard)
					if i == 1 {
						x.rig.Srv.ResetOpStats()
					}
				})
				simrt.Yield()
			}
		})
	}
	wg.Wait()
	simrt.LockHook = nil
	if spec.Property == "C14" && spec.knob("big", 0) != 0 {
		// shutdown / Crash() / restart while a shrinker thread runs
		simrt.SetTag("truncate + Crash() + restart")
		x.rig.Call(&In{K: "setattr", Obj: x.setup[slotBig], SetSz: true, Size: 0})
		if spec.Seed%2 == 0 {
			simrt.Scope(x.rig.Group, func() { x.rig.Srv.Crash() })
		} else {
			x.rig.Shutdown()
		}
		x.rig = startServer(x.d, x.rig.Unstable, spec.knob("icache", 0), spec.knob("nshard", 0))
		x.rig.Call(&In{K: "getattr", Obj: x.setup[slotBig]})
		x.res.count("shutdown_with_shrinker", 1)
	}
	// final observation by one client: the whole tree and all file contents
	simrt.SetTag("final observation")
	x.m = init // (the sequential model is not advanced during the concurrent phase)
	obs := func(in *In) *Out {
		r := &concRec{client: len(spec.Clients), in: in}
		x.evseq++
		r.call = x.evseq
		out := x.rig.Call(in)
		x.evseq++
		r.ret = x.evseq
		r.out = out
		x.recs = append(x.recs, r)
		return out
	}
	observeTree(rootH, obs)
	simrt.WaitUntil("background shrinker to finish", func() bool { return x.rig.Srv.VerifShrinkerThreads() == 0 })
	simrt.Quiesce()
	if _, err := fsck(x.rig, x.m.Lim.NameMax); err != nil {
		fe := err.(*fsckErr)
		x.fail("fsck", "fsck:"+fe.clause, "after the concurrent phase: "+err.Error())
	}
	x.m = init
}

// observeTree reads the whole tree through RPCs: every directory listing,
// every file's bytes, every link target.
func observeTree(rootH string, obs func(in *In) *Out) {
	var walk func(h string, depth int)
	walk = func(h string, depth int) {
		if depth > 6 {
			return
		}
		out := obs(&In{K: "readdirplus", Obj: h, Dircnt: 1 << 20, Maxcnt: 1 << 20})
		if out.Status != 0 {
			return
		}
		for _, e := range out.Ents {
			if e.Name == "." || e.Name == ".." {
				continue
			}
			if !e.HasH || e.Attr == nil {
				lk := obs(&In{K: "lookup", Obj: h, Name: e.Name})
				if lk.Status != 0 || lk.Attr == nil {
					continue
				}
				e.H, e.HasH, e.Attr = lk.H, true, lk.Attr
			}
			switch e.Attr.Type {
			case kDIR:
				walk(e.H, depth+1)
			case kREG:
				if e.Attr.Size <= 1<<20 {
					obs(&In{K: "read", Obj: e.H, Off: 0, Count: e.Attr.Size + 10})
				} else {
					obs(&In{K: "getattr", Obj: e.H})
				}
			case kLNK:
				obs(&In{K: "readlink", Obj: e.H})
			}
		}
	}
	walk(rootH, 0)
}

// stamp and addRec are the harness's own cross-task bookkeeping (ordered by
// the baton); they are hidden from the race detector.
//
//go:norace
func (x *concRun) stamp() int64 {
	x.evseq++
	return x.evseq
}

//go:norace
func (x *concRun) addRec(r *concRec) int {
	x.recs = append(x.recs, r)
	return len(x.recs) - 1
}

func (concEngine) Exec(spec *Spec) *Result {
	res := &Result{}
	resetPageHashCache()
	defer func() {
		pageHashMu.Lock()
		internPages = false
		pageWriteCache = map[pwKey][]byte{}
		pageHashCache = map[*byte]uint64{}
		pageHashMu.Unlock()
	}()
	x := &concRun{spec: spec, res: res, d: simdisk.New(spec.Disk)}
	cfg := simConfig(spec.Sched, 2_000_000)
	cfg.SecondChance = 2_000_000
	sim := simrt.Run(cfg, x.main)
	res.Fingerprint = sim.Fingerprint
	res.SchedPrint = sim.SchedPrint
	res.Steps = sim.Stats.Steps
	res.SimNanos = sim.Stats.SimNanos
	res.count("lock_order_inversions", x.inv)
	res.count("switches", int64(sim.Stats.Switches))
	if sim.Stats.ChanOps > 0 {
		res.count("chan_ops", int64(sim.Stats.ChanOps))
		res.count("chan_blocks", int64(sim.Stats.ChanBlock))
	}
	if x.viol != nil {
		res.Viol = x.viol
		return res
	}
	res.count("budget_second_chance", int64(sim.Stats.SecondChances))
	if sim.Outcome != nil && sim.Outcome.Kind == "budget" {
		res.Viol = &Violation{Property: spec.Property, Kind: "livelock", Sig: "livelock",
			Detail: "no progress even under a fair scheduler: " + sim.Outcome.Detail + " (task " + sim.Outcome.Task + ", doing " + sim.Outcome.Tag + ")"}
		return res
	}
	if v := outcomeViolation(spec.Property, sim.Outcome, "concurrent run"); v != nil {
		res.Viol = v
		return res
	}
	res.Nontrivial = len(x.recs) >= 4 && sim.Stats.Choices > 10
	if spec.knob("nolin", 0) != 0 || simrt.RaceEnabled {
		return res
	}
	var hist []porcupine.Operation
	for _, r := range x.recs {
		hist = append(hist, porcupine.Operation{ClientId: r.client, Input: r.in, Output: r.out, Call: r.call, Return: r.ret})
	}
	switch porcupine.CheckOperationsTimeout(nfsPorcupineModel(x.m), hist, 20*time.Second) {
	case porcupine.Illegal:
		// cross-check with an independent brute-force search before reporting: a
		// disagreement is a fault of the checker, never reported as a violation
		dbg := linDebug(x.m, x.recs)
		if os.Getenv("VERIF_LINDEBUG") != "" {
			fmt.Fprintln(os.Stderr, dbg)
		}
		if strings.HasPrefix(dbg, "a linearization exists") {
			res.Inconcl++
			res.count("checker_disagreement", 1)
			return res
		}
		sig := "not-linearizable:" + concBlame(x)
		res.Viol = &Violation{Property: spec.Property, Kind: "linearizability", Sig: sig,
			Detail: "the history is not linearizable against the reference file system; the shortest illegal prefix (by completion) ends with " + x.blameDetail + "; " + dbg + "; full history: " + concHistString(x.recs)}
	case porcupine.Unknown:
		res.Inconcl++
	default:
		res.count("histories_linearizable", 1)
	}
	res.StateHashes = append(res.StateHashes, hashString(concHistString(x.recs)))
	if spec.knob("crashc", 0) != 0 {
		if v := x.crashCheck(); v != nil {
			v.Property = spec.Property
			res.Viol = v
		}
	}
	return res
}

// readOnlyKind: operations that change nothing; they constrain the crash-free
// history only (a reply may legitimately reflect state that was committed in
// memory but not yet durable, as long as the operation that made it had not
// been acknowledged).
func readOnlyKind(k string) bool {
	switch k {
	case "getattr", "lookup", "access", "readlink", "read", "readdir", "readdirplus", "fsinfo", "pathconf", "fsstat", "null":
		return true
	}
	return false
}

// crashCheck cuts the disk off at points of the concurrent phase's write
// stream (every prefix, sampled subsets of the un-barriered writes), restarts
// a server on each image, reads the whole tree back and requires the history
//
//	operations acknowledged before the cut (exact replies)
//	operations in flight at the cut (took effect with their reply, or not at all)
//	the post-crash observations
//
// to be linearizable against the reference file system; the recovered
// structure must pass fsck and conservation.
func (x *concRun) crashCheck() *Violation {
	spec := x.spec
	tr := x.d.Trace[x.traceStart:]
	invokeAt := map[int]int{}
	returnAt := map[int]int{}
	for i, ev := range tr {
		if ev.Kind == simdisk.EvMark {
			if ev.B == 0 {
				invokeAt[ev.A] = i
			} else {
				returnAt[ev.A] = i
			}
		}
	}
	nclient := len(spec.Clients)
	var conc []*concRec // records of the concurrent phase (the final observation is dropped)
	for _, r := range x.recs {
		if r.client < nclient {
			conc = append(conc, r)
		}
	}
	var cst crashStats
	crng := simrt.Stream(spec.Seed, "crash")
	maxImg := 60
	if spec.Tier == "thorough" {
		maxImg = 250
	}
	model := nfsPorcupineModel(x.m)
	const crashT = int64(1) << 40
	mode := spec.knob("crashc", 0)
	v := enumerateCrashes(x.base, tr, spec.Crash, crng, int(spec.knob("subsets", 2)), maxImg, &cst, func(cp *CrashPoint) *Violation {
		where := fmt.Sprintf("crash before disk event %d of the concurrent phase (%s %s; %d un-barriered writes)", cp.Event, cp.Mode, cp.Mask, cp.Open)
		var recs []*concRec
		acked, inflight := 0, 0
		ackedAt := func(i int) bool {
			ret, ok := returnAt[i]
			return ok && ret < cp.Event
		}
		// the newest acknowledged operation that certainly flushed the log (a COMMIT,
		// or a successful operation that was not answered UNSTABLE and whose
		// transaction cannot be empty): unstable writes acknowledged before it was
		// invoked must be durable
		flushCall := int64(-1)
		if mode == 2 {
			for i, r := range conc {
				if r.out == nil || r.out.Status != 0 || !ackedAt(i) {
					continue
				}
				sure := false
				switch r.in.K {
				case "commit", "mkdir", "symlink", "remove", "rmdir":
					sure = true
				case "create":
					sure = r.in.How == 1
				case "write":
					sure = r.out.Commit > 0 && r.out.Count > 0
				}
				if sure && r.call > flushCall {
					flushCall = r.call
				}
			}
		}
		for i, r := range conc {
			inv, okI := invokeAt[i]
			if !okI || inv >= cp.Event || readOnlyKind(r.in.K) || r.in.K == "commit" || r.out == nil || r.out.Status != 0 {
				continue
			}
			if mode == 2 && (r.in.K == "write" || r.in.K == "setattr") && r.out.Attr != nil {
				// the attributes in a reply may reflect another client's unstable data
				// that is legitimately lost; they are checked in the crash-free history
				o := *r.out
				o.Attr = nil
				r = &concRec{client: r.client, in: r.in, out: &o, call: r.call, ret: r.ret}
			}
			mayBeLost := mode == 2 && r.in.K == "write" && r.out.Commit == 0 && r.ret > flushCall
			if mode == 2 && r.in.K == "write" && r.out.Commit == 0 && ackedAt(i) {
				if mayBeLost {
					x.res.count("crash_unstable_writes_optional", 1)
				} else {
					x.res.count("crash_unstable_writes_forced_by_later_flush", 1)
				}
			}
			if ackedAt(i) && !mayBeLost {
				recs = append(recs, r)
				acked++
			} else {
				in := *r.in
				in.Pending = true
				recs = append(recs, &concRec{client: r.client, in: &in, out: r.out, call: r.call, ret: crashT + 1<<20})
				inflight++
			}
		}
		obsRecs, v := x.recoverAndObserve(cp.Img, crashT, where)
		if v != nil {
			return v
		}
		recs = append(recs, obsRecs...)
		x.res.StateHashes = append(x.res.StateHashes, cp.Img.Hash())
		var hist []porcupine.Operation
		for _, r := range recs {
			hist = append(hist, porcupine.Operation{ClientId: r.client, Input: r.in, Output: r.out, Call: r.call, Return: r.ret})
		}
		if x.res.Inconcl >= 3 {
			return nil // this run's histories are too hard for the checker: stop spending time on it
		}
		switch porcupine.CheckOperationsTimeout(model, hist, 5*time.Second) {
		case porcupine.Illegal:
			dbg := linDebug(x.m, recs)
			if strings.HasPrefix(dbg, "a linearization exists") {
				x.res.Inconcl++
				x.res.count("checker_disagreement", 1)
				return nil
			}
			return &Violation{Kind: "crash-state", Sig: "conc-crash-state",
				Detail: where + fmt.Sprintf(": the recovered file system is not explained by the %d operations acknowledged before the crash plus any subset of the %d in flight; %s; history: %s",
					acked, inflight, dbg, concHistString(recs))}
		case porcupine.Unknown:
			x.res.Inconcl++
		default:
			x.res.count("crash_histories_linearizable", 1)
			if inflight > 0 {
				x.res.count("crash_histories_with_inflight_ops", 1)
			}
		}
		return nil
	})
	x.res.count("crash_points", int64(cst.Points))
	x.res.count("crash_images", int64(cst.Images))
	x.res.count("crash_subset_images", int64(cst.Subsets))
	x.res.count("disk_writes", int64(cst.Writes))
	x.res.count("disk_barriers", int64(cst.Barriers))
	return v
}

// recoverAndObserve starts a server on a crash image, reads the tree back
// (records stamped after crashT), and checks the structure.
func (x *concRun) recoverAndObserve(img *simdisk.Image, crashT int64, where string) ([]*concRec, *Violation) {
	spec := x.spec
	d := simdisk.FromImage(img)
	d.NoTrace = true
	var recs []*concRec
	var viol *Violation
	fail := func(kind, sig, detail string) {
		if viol == nil {
			viol = &Violation{Kind: kind, Sig: sig, Detail: where + ": " + detail}
		}
		simrt.Fail("violation", detail)
	}
	sc := spec.Sched
	sc.Seed ^= img.Hash()
	seq := crashT
	sim := simrt.Run(simConfig(sc, 10_000_000), func() {
		simrt.SetTag("recovery")
		rig := startServer(d, spec.knob("unstable", 1) != 0, spec.knob("icache", 0), spec.knob("nshard", 0))
		simrt.SetTag("observation after recovery")
		observeTree(x.rootH, func(in *In) *Out {
			in.PostCrash = true
			r := &concRec{client: len(spec.Clients), in: in}
			seq++
			r.call = seq
			r.out = rig.Call(in)
			seq++
			r.ret = seq
			recs = append(recs, r)
			return r.out
		})
		simrt.Quiesce()
		info, err := fsck(rig, x.m.Lim.NameMax)
		if err != nil {
			fail("fsck", "fsck:"+err.(*fsckErr).clause, "after recovery: "+err.Error())
		}
		if err := conservation(info); err != nil {
			fail("conservation", "conservation:"+err.(*fsckErr).clause, "after recovery: "+err.Error())
		}
	})
	if viol != nil {
		return nil, viol
	}
	if v := outcomeViolation(spec.Property, sim.Outcome, where+": recovery"); v != nil {
		return nil, v
	}
	return recs, nil
}

// concBlame finds a small witness: the kinds of operations of the shortest
// prefix of the history (by return order) that is already not linearizable.
func concBlame(x *concRun) string {
	recs := append([]*concRec{}, x.recs...)
	sort.Slice(recs, func(i, j int) bool { return recs[i].ret < recs[j].ret })
	model := nfsPorcupineModel(x.m)
	for n := 1; n <= len(recs); n++ {
		var hist []porcupine.Operation
		for _, r := range recs[:n] {
			hist = append(hist, porcupine.Operation{ClientId: r.client, Input: r.in, Output: r.out, Call: r.call, Return: r.ret})
		}
		if porcupine.CheckOperationsTimeout(model, hist, 5*time.Second) == porcupine.Illegal {
			x.blameDetail = concHistString(recs[n-1 : n])
			for _, e := range recs[n-1].out.Ents {
				x.blameDetail += fmt.Sprintf(" {%q id=%d h=%s attr=%v}", e.Name, e.FileID, hname(e.H), e.Attr)
			}
			return recs[n-1].in.K
		}
	}
	return "?"
}

func concHistString(recs []*concRec) string {
	var b strings.Builder
	for _, r := range recs {
		fmt.Fprintf(&b, "[c%d %s %s @%d-%d -> st=%d", r.client, hname(r.in.Obj), describeIn(r.in), r.call, r.ret, r.out.Status)
		if r.in.Obj2 != "" {
			fmt.Fprintf(&b, " to=%s", hname(r.in.Obj2))
		}
		if r.out.HasH {
			fmt.Fprintf(&b, " h=%s", hname(r.out.H))
		}
		if r.out.Attr != nil {
			fmt.Fprintf(&b, " size=%d", r.out.Attr.Size)
		}
		if r.in.K == "read" {
			fmt.Fprintf(&b, " %d bytes h=%x", len(r.out.Data), hashString(string(r.out.Data))&0xffff)
		}
		if len(r.out.Ents) > 0 {
			var ns []string
			for _, e := range r.out.Ents {
				ns = append(ns, e.Name)
			}
			fmt.Fprintf(&b, " ents=%v", ns)
		}
		b.WriteString("] ")
	}
	return b.String()
}

// hname renders a handle compactly (inode number / generation as issued by
// this server; opaque to the oracles, used for reports only).
func hname(h string) string {
	if len(h) < 16 {
		return fmt.Sprintf("%x", h)
	}
	return fmt.Sprintf("#%d.%d", uint64(h[0])|uint64(h[1])<<8|uint64(h[2])<<16, uint64(h[8])|uint64(h[9])<<8)
}

// linDebug searches for a linearization by brute force and reports, for the
// deepest prefix it could build, why each remaining candidate is refused by
// the model (diagnostics for non-linearizable histories; VERIF_LINDEBUG=1).
func linDebug(init *Model, recs []*concRec) string {
	n := len(recs)
	used := make([]bool, n)
	best := -1
	var bestOrder []int
	var bestWhy []string
	var order []int
	budget := 300_000
	deadline := time.Now().Add(6 * time.Second)
	var dfs func(m *pState, k int)
	dfs = func(m *pState, k int) {
		if budget <= 0 {
			return
		}
		budget--
		if budget%1024 == 0 && time.Now().After(deadline) {
			budget = 0
			return
		}
		if k == n {
			best = n
			bestOrder = append([]int{}, order...)
			bestWhy = nil
			return
		}
		// candidates: unused ops whose call precedes every unused op's return
		minRet := int64(1) << 62
		for i := 0; i < n; i++ {
			if !used[i] && recs[i].ret < minRet {
				minRet = recs[i].ret
			}
		}
		var why []string
		for i := 0; i < n && best < n; i++ {
			if used[i] || recs[i].call > minRet {
				continue
			}
			c, err := pStep(m, recs[i].in, recs[i].out)
			if err != nil {
				why = append(why, fmt.Sprintf("[c%d %s @%d-%d: %v]", recs[i].client, describeIn(recs[i].in), recs[i].call, recs[i].ret, err))
				continue
			}
			used[i] = true
			order = append(order, i)
			dfs(c, k+1)
			order = order[:len(order)-1]
			used[i] = false
		}
		if k > best && best < n {
			best = k
			bestOrder = append([]int{}, order...)
			bestWhy = why
		}
	}
	dfs(&pState{m: init}, 0)
	if best == n {
		return "a linearization exists (porcupine and the brute-force search disagree)"
	}
	var b strings.Builder
	fmt.Fprintf(&b, "deepest legal prefix has %d of %d operations: ", best, n)
	for _, i := range bestOrder {
		fmt.Fprintf(&b, "c%d.%s@%d ", recs[i].client, recs[i].in.K, recs[i].call)
	}
	b.WriteString("; then every candidate is refused: " + strings.Join(bestWhy, " "))
	return b.String()
}
