package main

import (
	"fmt"

	"verifsim/simdisk"
	"verifsim/simrt"
)

// C15: every supported disk size yields a consistent, fully usable file
// system. A configuration sweep: the run with index i examines the i-th size
// of the tier's list; the list is enumerated completely (coverage.exhaustive).

type sizesEngine struct{}

func init() { register("sizes", sizesEngine{}, "C15") }

// sizeList returns the sizes of a tier: a dense range from the smallest
// accepted size and dense ranges around multiples of the bitmap-block
// capacity (32768 blocks).
func sizeList(tier string) []uint64 {
	min := smallestDisk()
	var l []uint64
	// sizes below the smallest usable one: the server must either refuse them at
	// start-up or produce a well-formed (if tiny) file system - "every disk size
	// the server accepts"
	lowStride := uint64(23)
	if tier == "thorough" {
		lowStride = 1
	}
	for s := uint64(1); s+60 < min; s += lowStride {
		l = append(l, s)
	}
	for s := min - min2(min, 60); s < min; s++ {
		if s >= 1 {
			l = append(l, s)
		}
	}
	if tier == "thorough" {
		for s := min; s < min+400; s++ {
			l = append(l, s)
		}
		for k := uint64(1); k <= 2; k++ {
			for s := 32768*k - 40; s <= 32768*k+40; s++ {
				l = append(l, s)
			}
		}
		for s := uint64(2000); s < 32000; s += 1777 {
			l = append(l, s)
		}
		return l
	}
	for s := min; s < min+300; s++ {
		l = append(l, s)
	}
	for s := min + 300; s < min+3000; s += 61 {
		l = append(l, s)
	}
	for _, d := range []int64{-9, -8, -7, -2, -1, 0, 1, 2, 7, 8, 9} {
		l = append(l, uint64(32768+d))
	}
	l = append(l, 8192, 16384, 20000, 65536-1, 65536, 65536+1)
	return l
}

func min2(a, b uint64) uint64 {
	if a < b {
		return a
	}
	return b
}

func (sizesEngine) Gen(prop string, seed uint64, tier string) *Spec {
	l := sizeList(tier)
	i := int(seed & 0xFFFFFF)
	if i >= len(l) {
		return nil
	}
	return &Spec{Property: prop, Engine: "sizes", Seed: seed, Tier: tier, Disk: l[i],
		Sched:   SchedCfg{Policy: "rw", SwitchP: 0.1, Seed: seed},
		Knobs:   map[string]int64{"total": int64(len(l))},
		Clients: [][]Op{{{K: "format-fill-delete", Len: l[i]}}}}
}

func (sizesEngine) Exec(spec *Spec) *Result {
	res := &Result{}
	size := spec.Disk
	d := simdisk.New(size)
	d.NoTrace = true // restarts use the current image; no trace needed
	var viol *Violation
	fail := func(sig, detail string) {
		if viol == nil {
			viol = &Violation{Property: spec.Property, Kind: "disk-size", Sig: sig, Detail: fmt.Sprintf("disk of %d blocks: %s", size, detail)}
		}
		simrt.Fail("violation", detail)
	}
	accepted := false
	sim := simrt.Run(simConfig(spec.Sched, 200_000_000), func() {
		simrt.SetTag("format")
		rig := startServer(d, true, 0, 257)
		accepted = true
		st := rig.Srv.VerifFsState()
		sup := st.Super
		// region arithmetic
		starts := []uint64{0, uint64(sup.BitmapBlockStart()), uint64(sup.BitmapInodeStart()), uint64(sup.InodeStart()), uint64(sup.DataStart()), uint64(sup.MaxBnum())}
		names := []string{"log", "block bitmap", "inode bitmap", "inode table", "data", "end"}
		for i := 1; i < len(starts); i++ {
			// (an empty data region is not excluded by the property's wording; what such a
			// disk must still satisfy is checked below)
			if starts[i] < starts[i-1] || (starts[i] == starts[i-1] && i != 5) {
				fail("size:regions", fmt.Sprintf("region %q [%d,%d) is empty or overlaps its predecessor", names[i-1], starts[i-1], starts[i]))
			}
		}
		if starts[5] > size {
			fail("size:regions", fmt.Sprintf("the data region ends at block %d, beyond the disk", starts[5]))
		}
		if (starts[2]-starts[1])*32768 < size {
			fail("size:regions", fmt.Sprintf("the block bitmap (%d blocks) cannot describe %d blocks", starts[2]-starts[1], size))
		}
		if (starts[3]-starts[2])*32768 < uint64(sup.NInode()) {
			fail("size:regions", "the inode bitmap cannot describe all inodes")
		}
		dataBlocks := starts[5] - starts[4]
		root := rootHandle()
		simrt.Quiesce()
		info0, err := fsck(rig, 255)
		if err != nil {
			fail("size:fsck-fresh:"+err.(*fsckErr).clause, "freshly formatted: "+err.Error())
		}
		if err := conservation(info0); err != nil {
			fail("size:conservation-fresh", "freshly formatted: "+err.Error())
		}
		if info0 != nil && info0.AllocFreeIno+uint64(info0.BitmapUsedIno) > uint64(sup.NInode()) {
			fail("size:inode-table", fmt.Sprintf("the inode allocator offers %d free inodes (plus %d in use), but the inode table has room for %d: inodes beyond the table would live in the data region",
				info0.AllocFreeIno, info0.BitmapUsedIno, sup.NInode()))
		}
		if info0.BitmapUsedBlks != info0.RootBlocks || info0.BitmapUsedIno != 2 {
			fail("size:fresh-marking", fmt.Sprintf("freshly formatted: %d data blocks and %d inodes are marked in use (expected only the root directory's %d blocks and the two reserved inodes)",
				info0.BitmapUsedBlks, info0.BitmapUsedIno, info0.RootBlocks))
		}
		// crash/restart right after the format
		simrt.SetTag("restart after format")
		r2 := startServer(simdisk.FromImage(d.Current()), true, 0, 257)
		simrt.Quiesce()
		if i2, err := fsck(r2, 255); err != nil {
			fail("size:fsck-restart:"+err.(*fsckErr).clause, "restart after format: "+err.Error())
		} else if err := conservation(i2); err != nil {
			fail("size:conservation-restart", "restart after format: "+err.Error())
		}
		simrt.KillGroup(r2.Group)

		// fill the disk completely through WRITE
		simrt.SetTag("fill")
		chunk := make([]byte, 64*4096)
		for i := range chunk {
			chunk[i] = byte(i%251) | 1
		}
		var files []string
		nfile := 0
		full := false
		for !full && nfile < 4000 {
			name := fmt.Sprintf("fill%d", nfile)
			nfile++
			c := rig.Call(&In{K: "create", Obj: root, Name: name, How: 1})
			if c.Status != 0 {
				break
			}
			files = append(files, name)
			off := uint64(0)
			for off < 3000*4096 {
				n := uint64(len(chunk))
				w := rig.Call(&In{K: "write", Obj: c.H, Off: off, Count: n, Data: chunk, How: 0})
				if w.Status != 0 || w.Count == 0 {
					// retry block by block to use the last free blocks
					one := rig.Call(&In{K: "write", Obj: c.H, Off: off, Count: 4096, Data: chunk[:4096], How: 0})
					if one.Status != 0 || one.Count == 0 {
						// this file cannot grow (its next block may need an index block
						// too); the disk is full when even a fresh file's first block fails
						if off == 0 {
							full = true
						}
						break
					}
					off += one.Count
					continue
				}
				off += w.Count
			}
		}
		rig.Call(&In{K: "commit", Obj: root})
		simrt.Quiesce()
		info1, err := fsck(rig, 255)
		if err != nil {
			fail("size:fsck-full:"+err.(*fsckErr).clause, "after filling the disk: "+err.Error())
		}
		if err := conservation(info1); err != nil {
			fail("size:conservation-full", "after filling the disk: "+err.Error())
		}
		if uint64(info1.BitmapUsedBlks) != dataBlocks {
			fail("size:not-fully-usable", fmt.Sprintf("writes fail with %d of the %d data blocks allocated: %d blocks of the data region can never be used",
				info1.BitmapUsedBlks, dataBlocks, dataBlocks-uint64(info1.BitmapUsedBlks)))
		}
		res.count("blocks_filled", int64(info1.BitmapUsedBlks))
		// crash/restart with the disk full
		simrt.SetTag("restart when full")
		r3 := startServer(simdisk.FromImage(d.Current()), true, 0, 257)
		simrt.Quiesce()
		if i3, err := fsck(r3, 255); err != nil {
			fail("size:fsck-restart-full:"+err.(*fsckErr).clause, "restart with a full disk: "+err.Error())
		} else if err := conservation(i3); err != nil {
			fail("size:conservation-restart-full", "restart with a full disk: "+err.Error())
		}
		simrt.KillGroup(r3.Group)
		// delete everything: space comes back
		simrt.SetTag("delete all")
		for _, name := range files {
			if rm := rig.Call(&In{K: "remove", Obj: root, Name: name}); rm.Status != 0 {
				fail("size:delete", fmt.Sprintf("removing %s from a full disk failed with status %d", name, rm.Status))
			}
		}
		simrt.WaitUntil("background shrinker to finish", func() bool { return rig.Srv.VerifShrinkerThreads() == 0 })
		simrt.Quiesce()
		info2, err := fsck(rig, 255)
		if err != nil {
			fail("size:fsck-empty:"+err.(*fsckErr).clause, "after deleting everything: "+err.Error())
		}
		if err := conservation(info2); err != nil {
			fail("size:conservation-empty", "after deleting everything: "+err.Error())
		}
		if info2.BitmapUsedBlks-info2.RootBlocks != info0.BitmapUsedBlks-info0.RootBlocks || info2.BitmapUsedIno != info0.BitmapUsedIno || info2.HalfFreed != 0 {
			fail("size:not-reclaimed", fmt.Sprintf("after deleting everything %d data blocks (beyond the root directory's) and %d inodes remain marked; %d half-freed inodes",
				info2.BitmapUsedBlks-info2.RootBlocks, info2.BitmapUsedIno, info2.HalfFreed))
		}
	})
	res.Fingerprint = sim.Fingerprint
	res.SchedPrint = sim.SchedPrint
	res.Steps = sim.Stats.Steps
	res.SimNanos = sim.Stats.SimNanos
	res.count("sizes_total", 0)
	if viol != nil {
		res.Viol = viol
		return res
	}
	if sim.Outcome != nil && !accepted && sim.Outcome.Kind == "panic" {
		// the server refuses this size at start-up: not a supported size
		res.count("sizes_refused", 1)
		return res
	}
	if v := outcomeViolation(spec.Property, sim.Outcome, fmt.Sprintf("disk of %d blocks", size)); v != nil {
		res.Viol = v
		return res
	}
	res.Nontrivial = true
	res.count("sizes_accepted", 1)
	res.StateHashes = append(res.StateHashes, size)
	return res
}
