"""Per-property configuration of the checks (budgets, evidence texts)."""

REAL = ["go-nfsd (all packages, working tree of /repo)", "go-journal wal/obj/jrnl/buf/lockmap/alloc (logger, installer, recovery)",
        "tchajed/marshal", "goose-lang/std"]
STUBS = ["disk: simdisk (latest-write view + write/barrier trace + crash images) instead of MemDisk/FileDisk",
         "sync/go/time.Now: simrt baton scheduler, seeded", "cmd/go-nfsd main(), portmapper, TCP listener: not run"]

COMMON_ASSUME = [
    "block writes are atomic (GoJournal's disk contract); torn blocks are not injected",
    "a Barrier makes every earlier write durable; un-barriered writes may persist in any subset, same-block writes in issue order",
    "interleavings are explored at synchronisation-operation granularity (sound for data-race-free code; races are C14)",
    "sampling, not enumeration, of schedules and histories; crash points of each sampled trace are enumerated",
]

PROPS = {
    "C18": {
        "level": "fault_enumeration",
        "level_text": "seeded search over caller schedules; inside every sampled run all crash points of the disk trace are enumerated (plus sampled write subsets and nested crashes during recovery) and each recovered state is checked with porcupine against a map model in which a MultiPut is one atomic step",
        "budget": {"quick": 45, "thorough": 900},
        "rule": "one evaluation = one seeded simulated run of 1-4 concurrent KVS callers (3-12 MultiPut/Get operations each, "
                "overlapping keys incl. both range boundaries, unique values) under a seeded schedule, followed by recovery from "
                "every crash point of its disk trace (all event indices, plus sampled subsets of un-barriered writes, plus nested "
                "crashes during recovery); distinct = distinct execution fingerprint (schedule decisions + disk trace + replies); "
                "non-trivial = at least 2 operations and at least one scheduling choice",
        "state_measure": "content hash of distinct crash images recovered",
        "real": REAL, "stubs": STUBS, "assumptions": COMMON_ASSUME,
    },
}

SEQ_RULE = ("one evaluation = one seeded simulated run of a generated single-client operation sequence (all NFSv3 procedures the profile enables, "
            "symbolic handles incl. stale and never-issued ones, boundary names/offsets/sizes relative to the limits the server announces) against the real "
            "server under a seeded schedule of its background threads (logger, installer, shrinker; starvation profiles), every reply checked by the reference model; ")

def seq(level, text, rule_extra, quick=60, thorough=900, measure=None, **kw):
    d = {"level": level, "level_text": text, "budget": {"quick": quick, "thorough": thorough},
         "rule": SEQ_RULE + rule_extra + " distinct = distinct execution fingerprint (schedule decisions + disk trace + replies); non-trivial = more than 3 operations executed",
         "state_measure": measure or "content hash of distinct crash images recovered / final reference states",
         "real": REAL, "stubs": STUBS, "assumptions": COMMON_ASSUME}
    d.update(kw)
    return d

PROPS.update({
    "C01": seq("fault_enumeration",
               "seeded search over operation sequences and background-thread schedules; inside every sampled run every crash point of the disk trace is enumerated (prefix mode), plus sampled subsets of un-barriered writes and nested crashes during recovery; each image is recovered by the real server and must equal a prefix state that includes every operation acknowledged with stable semantics (tree, sizes, link targets, every byte, handles), pass fsck and conservation, and keep serving",
               "then recovery from every crash point of its disk trace (crash-prefix refinement P, fsck F, conservation A, continuation workload). "
               "Every 4th evaluation is instead a run of 2-4 concurrent clients (stable writes only) whose disk trace is cut at sampled points inside the group commits; "
               "the recovered tree is read back through RPCs and porcupine decides whether acknowledged operations (exact) + operations in flight (took effect with their reply, or not at all) + post-crash observations are linearizable.", quick=75),
    "C02": seq("exploration",
               "seeded search over single-client histories (50-300 operations, all procedures, stale/garbage handles, illegal names, block/indirection boundaries, restarts, unstable on/off, small inode caches); every reply and periodic full dumps are compared with the reference file system, restarts with restart-equivalence",
               "full tree/data dumps vs the model every few operations and at the end, restart equivalence at every restart."),
    "C04": seq("fault_enumeration",
               "structural fsck (pointers in the data region, single ownership, bitmap agreement both ways, tree rooted at inode 1 with unique well-formed names and correct '.'/'..', sizes vs blocks) after every operation of sampled histories and on the recovered logical disk of every crash image of those histories, including images taken while a large file is being freed",
               "fsck after every operation and on every recovered crash image.", quick=75),
    "C05": seq("exploration",
               "build-then-delete histories (all size classes, sparse files, holes filled by reads, nested directories, renames over targets, failed and aborted operations with injected allocation failures, large files freed by the background shrinker); at quiescent points bitmap-in-use = allocator-in-use = reachable + held by half-freed inodes; after delete-all free counts return to the post-format values",
               "conservation at quiescent points and the delete-everything check; a tenth of the histories are followed by recovery from every crash point of their disk trace, "
               "where a file whose background truncation the crash interrupted is removed and must then hold nothing."),
    "C07": seq("fault_enumeration",
               "seeded search over stability mixes (UNSTABLE/DATA_SYNC/FILE_SYNC writes to several files, COMMITs, metadata operations, restarts, unstable option on/off); every crash point of each trace is recovered and must equal a prefix state that includes everything acknowledged as stable (so unstable loss is a suffix only); committed level never weaker than requested; write verifier constant within and different across server instances",
               "then recovery from every crash point; 'stable' is defined by the replies (committed >= DATA_SYNC, successful COMMIT, any later operation that commits with wait). "
               "Every 4th evaluation is instead a run of 2-4 concurrent clients (write/COMMIT-heavy, all stability levels): at sampled crash points of the concurrent phase, writes answered UNSTABLE and not followed by a later acknowledged COMMIT/stable operation are optional, everything else acknowledged must be in the recovered state (porcupine).", quick=75),
    "C08": seq("exploration",
               "seeded search over reuse-heavy histories (create/remove cycles so that inode numbers are recycled, restarts); every handle of a removed object is presented to every procedure and every handle position (object, directory, RENAME source and target directory) and must fail as stale without effect; handle <-> object must stay a bijection",
               "plus the dead-handle sweep: every removed object's handle x 20 procedure/position combinations."),
    "C09": seq("exploration",
               "seeded search over histories on nearly-full disks (data region 8-200 blocks) and with injected allocation failures, rich in requests that fail late (over-long rename targets, creates without space, writes that run out after allocating an index block); around every failing mutating request: observable snapshot (all attributes, listings) unchanged, allocator counts not lower, caches equal to the disk; then the reference model for all later operations and restart equivalence",
               "plus the audit around every failed mutating operation."),
    "C10": seq("exploration",
               "at quiescent, flushed points of sampled histories (incl. >100 live objects, tiny inode caches, failed operations): complete observable snapshot (all attribute fields incl. time stamps, listings, link targets) equal before/after a clean restart and for a second server recovered from the disk image at that instant; every cached inode and cached directory entry equal to the decoded logical disk; allocator counts equal to the bitmaps",
               "plus restart equivalence (clean restart and image recovery) and cache/disk coherence at quiescent points."),
    "C12": seq("fault_enumeration",
               "block-recycling histories on small disks (pattern fill, delete, shrink to aligned and unaligned sizes, sparse re-creation, partial-block writes, extensions) with byte-exact read-back against the model (zeroes where nothing was written; every byte carries its write's pattern id, so foreign bytes are attributable); every crash point of half of the histories is recovered and read back the same way",
               "byte-exact read-back incl. hole samples; crash enumeration on every second history.", quick=75),
    "C19": seq("exploration",
               "boundary-biased histories around the limits read from the run's own FSINFO/PATHCONF replies: names of length name_max-1, name_max, name_max+1 and far beyond, writes of wtmax-1/wtmax/wtmax+1 bytes, offsets and sizes at maxfilesize-1/maxfilesize/maxfilesize+1 and far beyond; at or below the limit the request must be accepted and behave normally (reference model, restart), above it must be refused with no effect",
               "values are generated relative to the announced limits (limit-1, limit, limit+1, far beyond)."),
})

CONC_RULE = ("one evaluation = one seeded simulated run of 2-4 clients, 3-8 RPCs each, on a small shared namespace (2 directories + a nested one, 3 names, shared files, a large file "
             "for the background shrinker, recycled inode numbers) under a seeded schedule (random walk with 4 switch rates, PCT, round robin, starvation of logger/installer/shrinker); ")

PROPS.update({
    "C03": {"level": "exploration", "budget": {"quick": 90, "thorough": 900},
            "level_text": "seeded search over concurrent histories and schedules; every recorded history (invoke/return stamped with the simulator's global event counter, closed by a sequential read-back of the whole tree) is checked for linearizability against the reference file system with porcupine; panics, deadlocks and a structural fsck after the run are checked as well",
            "rule": CONC_RULE + "the history incl. post-operation attributes, listings and the final read-back must be linearizable (porcupine, 20 s time-out, inconclusive counted separately). distinct = distinct execution fingerprint; non-trivial = at least 4 RPCs and more than 10 scheduling choices",
            "state_measure": "distinct recorded histories (hash of all requests and replies in order)",
            "real": REAL, "stubs": STUBS, "assumptions": COMMON_ASSUME + ["READDIRPLUS per-entry attributes are compared per entry, not as one snapshot (see DESIGN.md C03)"]},
    "C06": {"level": "exploration", "budget": {"quick": 90, "thorough": 900},
            "level_text": "seeded search over conflict-rich concurrent workloads (children with smaller and larger inode numbers than their parents, cold caches after a restart, renames in all directions, listings of parent and child) with, in half of the runs, directed preemption that holds one client at its n-th inode-lock acquisition until every other task is blocked or done; a deadlock is reported only when the simulator actually reaches a state with no runnable task (with the wait-for cycle), a livelock when a run exceeds its step budget even under a fair scheduler",
            "rule": CONC_RULE + "with cold caches and directed preemption (task, n-th lock acquisition); the run must finish: no state without a runnable task, step budget respected (second chance under round-robin). distinct = distinct execution fingerprint; non-trivial = at least 4 RPCs and more than 10 scheduling choices",
            "state_measure": "distinct recorded histories",
            "real": REAL, "stubs": STUBS, "assumptions": COMMON_ASSUME},
    "C14": {"level": "exploration", "budget": {"quick": 90, "thorough": 900}, "race": True,
            "level_text": "the same transformed system built with -race; baton hand-offs are hidden from the detector and the simulated sync primitives declare exactly the happens-before edges their real counterparts create (the disk declares none), so the detector reports a race exactly when two accesses are unordered by the program's own synchronisation in the simulated execution; workloads are the concurrent histories of C03 plus shutdown/crash/restart while shrinkers run",
            "rule": CONC_RULE + "built with the Go race detector (GOGC=off GOMAXPROCS=1 for repeatable verdicts); any race report is a violation. distinct = distinct execution fingerprint; non-trivial = at least 4 RPCs and more than 10 scheduling choices",
            "state_measure": "distinct recorded histories",
            "real": REAL, "stubs": STUBS, "assumptions": COMMON_ASSUME + ["ThreadSanitizer keeps a bounded access history per memory word: a race whose accesses are far apart can be missed in one run"]},
})

PROPS.update({
    "C17": {"level": "fault_enumeration", "budget": {"quick": 60, "thorough": 900}, "death_is_violation": True,
            "level_text": "seeded search over boundary-dense request sequences of 1-4 clients on the same files; every history is checked with porcupine against the executable SimpleNFS specification (30 files of at most 4096 bytes, hole/limit/count rules, eof flag); inside every sampled run all crash points of the disk trace are enumerated and each recovered state must be explained by the acknowledged requests plus an all-or-nothing choice for those in flight",
            "rule": "one evaluation = one seeded simulated run of 1-4 clients (4-18 READ/WRITE/SETATTR/GETATTR requests each; inode numbers valid and invalid, offsets/counts/sizes from 0 over the 4096 boundary to 2^64-1, counts that disagree with the data) under a seeded schedule, linearizability check, then recovery from every crash point (prefix mode + sampled subsets). distinct = distinct execution fingerprint; non-trivial = at least 3 requests",
            "state_measure": "content hash of distinct crash images recovered",
            "real": ["go-nfsd/simple (all of it)", "go-journal wal/obj/jrnl/buf/lockmap"], "stubs": STUBS, "assumptions": COMMON_ASSUME},
})

PROPS.update({
    "C13": {"level": "exploration", "budget": {"quick": 45, "thorough": 900},
            "level_text": "seeded search over directories (0..300 entries of all kinds and name lengths, freed slots in the middle, entries appended later) enumerated page by page with READDIR and READDIRPLUS under size limits from 0 to 100000 (count, dircount, maxcount independently), always resuming from the last cookie received; in 40% of the runs other clients add and remove names between and during the calls under a seeded schedule; the oracle is the enumeration rule set of the property",
            "rule": "one evaluation = one seeded run building a directory and performing 3-7 complete enumerations; rules: every call makes progress (non-EOF page has an entry and a new cookie), the enumeration ends, names present throughout are returned exactly once, nothing is returned that was not present at some time during the enumeration, repeats only for names re-created meanwhile, file ids / handles / types are those of an object the name denoted. distinct = distinct execution fingerprint; non-trivial = non-empty directory",
            "state_measure": "distinct executions",
            "real": REAL, "stubs": STUBS, "assumptions": COMMON_ASSUME},
})

PROPS.update({
    "C15": {"level": "exploration", "budget": {"quick": 240, "thorough": 3000},
            "level_text": "configuration sweep: every disk size of the tier's list (dense from the smallest size the server formats, dense around multiples of the bitmap-block capacity, plus a stride) is formatted on the simulated disk; region arithmetic through the server's own layout functions, fsck and conservation on the fresh image, the disk is filled through WRITE until nothing more can be allocated and the allocated set must be the whole data region, everything is deleted and the free counts must return, with a restart from the disk image after the format and when full; the list is enumerated completely",
            "rule": "one evaluation = one disk size: format, layout checks, fsck, fill to the last block through NFS WRITEs, restart from the image (fresh and full), delete all, reclaim check. The i-th run examines the i-th size of the list; all sizes of the list are examined (exhaustive for the list). distinct = distinct sizes; non-trivial = the server accepts the size",
            "state_measure": "distinct disk sizes examined",
            "real": REAL, "stubs": STUBS, "assumptions": COMMON_ASSUME + ["sizes outside the tier's list are not examined (quick: smallest..+300 dense, stride 61 to +3000, 32768+-9, a few larger; thorough: smallest..+400, 32768k+-40 for k=1,2, stride)"]},
})

PROPS.update({
    "C11": seq("exploration",
               "seeded search over histories that interleave the checked C02 workload with adversarial requests: all 22 NFS procedures with handles of length 0..64 and arbitrary content (plausible inode numbers with wrong generations, numbers beyond the table), names of 0..300 arbitrary bytes, offsets/counts/sizes/cookies at 0, block boundaries, 2^31, 2^32+-1, 2^63, 2^64-k, counts that disagree with the data supplied, cookies never issued; the 6 MOUNT procedures; and, in half of the runs, through the real RPC server loop: byte-level mutations of well-formed call messages (truncation, corrupted length words and discriminants, bit flips, trailing garbage, wrong program/version/procedure) and transport faults (short frames, missing last-fragment bit, oversized lengths, dropped connections). Every request must be answered or, if undecodable, dropped without harm: no panic in any task, no blocked handler, no deadlock; afterwards the checked workload must still agree with the reference model",
               "adversarial requests and mutated RPC messages in between; coverage-guided fuzzing is a different technique and is not used (generation is seeded and structural).",
               quick=75, death_is_violation=True),
})

NOT_APPLICABLE = {
    "C16": "pure function of its input (XDR encode/decode round-trip and a static dispatch table): no schedule, clock, fault or interleaving for a simulator to decide; see DESIGN.md section 6",
}
