"""Per-property configuration of the checks (budgets, evidence texts)."""

REAL = ["go-nfsd (all packages, working tree of /repo)", "go-journal wal/obj/jrnl/buf/lockmap/alloc (logger, installer, recovery)",
        "tchajed/marshal", "goose-lang/std"]
STUBS = ["disk: simdisk (latest-write view + write/barrier trace + crash images) instead of MemDisk/FileDisk",
         "sync/go/time.Now: simrt baton scheduler, seeded", "cmd/go-nfsd main(), portmapper, TCP listener: not run"]

COMMON_ASSUME = [
    "block writes are atomic (GoJournal's disk contract); torn blocks are not injected",
    "a Barrier makes every earlier write durable; un-barriered writes may persist in any subset, same-block writes in issue order",
    "interleavings are explored at synchronisation-operation granularity (sound for data-race-free code; races are C14)",
    "sampling, not enumeration, of schedules and histories; crash points of each sampled trace are enumerated",
]

PROPS = {
    "C18": {
        "level": "fault_enumeration",
        "level_text": "seeded search over caller schedules; inside every sampled run all crash points of the disk trace are enumerated (plus sampled write subsets and nested crashes during recovery) and each recovered state is checked with porcupine against a map model in which a MultiPut is one atomic step",
        "budget": {"quick": 45, "thorough": 900},
        "rule": "one evaluation = one seeded simulated run of 1-4 concurrent KVS callers (3-12 MultiPut/Get operations each, "
                "overlapping keys incl. both range boundaries, unique values) under a seeded schedule, followed by recovery from "
                "every crash point of its disk trace (all event indices, plus sampled subsets of un-barriered writes, plus nested "
                "crashes during recovery); distinct = distinct execution fingerprint (schedule decisions + disk trace + replies); "
                "non-trivial = at least 2 operations and at least one scheduling choice",
        "state_measure": "content hash of distinct crash images recovered",
        "real": REAL, "stubs": STUBS, "assumptions": COMMON_ASSUME,
    },
}

NOT_APPLICABLE = {
    "C16": "pure function of its input (XDR encode/decode round-trip and a static dispatch table): no schedule, clock, fault or interleaving for a simulator to decide; see DESIGN.md section 6",
}
