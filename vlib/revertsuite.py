#!/usr/bin/env python3
"""Sensitivity suite: re-introduce each repaired defect (reverse patch of its fix: commit)
and require the check of the property it violated to report a violation."""
import json, os, re, subprocess, sys
VERIF = os.path.dirname(os.path.dirname(os.path.abspath(__file__)))
sys.path.insert(0, VERIF)
kf = json.load(open(os.path.join(VERIF, "known_findings.json")))["findings"]
by_commit = {}
for f in kf:
    if f["status"] == "fixed":
        by_commit.setdefault(f["commit"], {"what": f["what"], "props": []})["props"].append(f["property"])
log = subprocess.run(["git", "-C", "/repo", "log", "--reverse", "--format=%h"], stdout=subprocess.PIPE, text=True).stdout.split()
only = sys.argv[1:]
n = 0
for h in log:
    if h not in by_commit:
        continue
    n += 1
    info = by_commit[h]
    slug = re.sub(r"[^a-z0-9]+", "-", info["what"].lower())[:40].strip("-")
    sid = "R-%02d-%s" % (n, slug)
    if only and not any(o in sid for o in only):
        continue
    sdir = os.path.join(VERIF, "seeded", sid)
    os.makedirs(sdir, exist_ok=True)
    patch = subprocess.run(["git", "-C", "/repo", "diff", h, h + "^"], stdout=subprocess.PIPE, text=True).stdout
    open(os.path.join(sdir, "patch.diff"), "w").write(patch)
    chk = subprocess.run(["git", "-C", "/repo", "apply", "--check", os.path.join(sdir, "patch.diff")], stderr=subprocess.PIPE, text=True)
    meta = {"property": info["props"][0], "also": info["props"][1:], "kind": "re-introduction of a repaired defect (reverse of the fix: commit)",
            "summary": info["what"], "needs": "see the fix: commit message; found originally by the check named in DESIGN.md section 7",
            "applies_cleanly": chk.returncode == 0}
    json.dump(meta, open(os.path.join(sdir, "meta.json"), "w"), indent=1)
    if chk.returncode != 0:
        print("%s: reverse patch does not apply on HEAD (later fixes touch the same lines); skipped" % sid, flush=True)
        continue
    subprocess.run([os.path.join(VERIF, "vlib", "seedtest.py"), sid] + info["props"][:2])
