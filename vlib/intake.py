#!/usr/bin/env python3
"""Confirms a sub-agent's seeded change in its scratch worktree and files it under /verif/seeded/<id>/.
   intake.py <worktree> <seeded-id> [origin]
Checks: patch applies to /repo's HEAD, builds (with and without -tags verif), baseline suite passes with the
change, the demonstration fails with the change and passes without it."""
import json, os, re, subprocess, sys, shutil, glob, time
wt, sid = sys.argv[1], sys.argv[2]
origin = sys.argv[3] if len(sys.argv) > 3 else "sub-agent"
env = dict(os.environ, GOFLAGS="-mod=mod", GOPROXY="off", GOSUMDB="off", GOTOOLCHAIN="local")
def sh(cmd, **kw):
    return subprocess.run(cmd, shell=True, cwd=wt, env=env, stdout=subprocess.PIPE, stderr=subprocess.STDOUT, text=True, **kw)
out = os.path.join(wt, "_out")
patch = os.path.join(out, "patch.diff")
meta = json.load(open(os.path.join(out, "meta.json")))
# demonstration files: untracked *_test.go (or other untracked .go) in the worktree, outside _out
unt = [l[3:] for l in sh("git status --porcelain").stdout.splitlines() if l.startswith("?? ") and not l[3:].startswith("_out")]
demos = []
for u in unt:
    p = os.path.join(wt, u)
    if os.path.isdir(p):
        demos += [os.path.relpath(f, wt) for f in glob.glob(p + "/**/*.go", recursive=True)]
    elif u.endswith(".go"):
        demos.append(u)
print("demonstration files:", demos)
assert demos, "no demonstration found"
stash = os.path.join(wt, "_out", "_demo_stash")
os.makedirs(stash, exist_ok=True)
def demo_out():
    for d in demos:
        os.makedirs(os.path.dirname(os.path.join(stash, d)), exist_ok=True)
        if os.path.exists(os.path.join(wt, d)):
            shutil.move(os.path.join(wt, d), os.path.join(stash, d))
def demo_in():
    for d in demos:
        if os.path.exists(os.path.join(stash, d)):
            os.makedirs(os.path.dirname(os.path.join(wt, d)), exist_ok=True)
            shutil.move(os.path.join(stash, d), os.path.join(wt, d))
# normalise: reset tracked files, apply the patch
demo_out()
sh("git checkout -- .")
r = sh("git apply --check %s" % patch)
assert r.returncode == 0, "patch does not apply: " + r.stdout
sh("git apply %s" % patch)
r = sh("go build ./... && go build -tags verif ./... && go vet -tags verif ./... >/dev/null 2>&1; go build ./...")
assert r.returncode == 0, "build fails: " + r.stdout
t0 = time.time()
r = sh("go test -vet=off -count=1 -timeout 25m ./...")
suite_ok = r.returncode == 0
print("baseline suite with the change: %s (%.0fs)" % ("ok" if suite_ok else "FAIL", time.time() - t0))
if not suite_ok:
    print(r.stdout[-3000:])
demo_in()
tests = {}
for d in demos:
    if d.endswith("_test.go"):
        names = re.findall(r"^func (Test\w+)\(", open(os.path.join(wt, d)).read(), re.M)
        tests.setdefault(os.path.dirname(d) or ".", []).extend(names)
def run_demo():
    res = []
    for pkg, names in tests.items():
        r = sh("go test -vet=off -count=1 -timeout 20m -run '^(%s)$' ./%s/" % ("|".join(names), pkg))
        res.append((r.returncode, r.stdout[-1500:]))
    mains = [d for d in demos if not d.endswith("_test.go")]
    for d in mains:
        r = sh("go run ./%s" % os.path.dirname(d))
        res.append((r.returncode, r.stdout[-1500:]))
    return res
with_change = run_demo()
sh("git apply -R %s" % patch)
without = run_demo()
sh("git apply %s" % patch)
fails_with = any(rc != 0 for rc, _ in with_change)
passes_without = all(rc == 0 for rc, _ in without)
print("demonstration with the change: %s; without: %s" % ("FAIL (as wanted)" if fails_with else "passes (NOT wanted)", "ok" if passes_without else "FAILS (NOT wanted)"))
if not fails_with or not passes_without:
    for rc, o in with_change + without:
        print(rc, o[-800:])
ok = suite_ok and fails_with and passes_without
if ok:
    dst = os.path.join(os.path.dirname(os.path.dirname(os.path.abspath(__file__))), "seeded", sid)
    os.makedirs(dst, exist_ok=True)
    shutil.copy(patch, os.path.join(dst, "patch.diff"))
    for d in demos:
        shutil.copy(os.path.join(wt, d), os.path.join(dst, os.path.basename(d) + ".txt"))
    meta["demo_files"] = demos
    meta["confirmed"] = "build ok; demonstration FAIL with change / ok without; baseline suite ok with change (%s)" % time.strftime("%Y-%m-%d")
    meta["origin"] = origin
    json.dump(meta, open(os.path.join(dst, "meta.json"), "w"), indent=1)
    print("KEPT", sid)
else:
    print("REJECTED", sid)
sys.exit(0 if ok else 1)
