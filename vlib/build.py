"""Build pipeline: rewrite scratch copies of /repo + deps, build the worker.

Nothing is kept under /tmp; the scratch tree lives under /var/tmp and is
removed as soon as the binaries are built. Binaries are cached under
/verif/.build/<key>/ where key covers every input of the build.
"""
import hashlib, os, shutil, subprocess, sys, tempfile, time, json

VERIF = os.path.dirname(os.path.dirname(os.path.abspath(__file__)))
REPO = os.environ.get("VERIF_REPO", "/repo")
BUILD = os.path.join(VERIF, ".build")

GOENV = dict(os.environ)
GOENV.update({"GOFLAGS": "-mod=mod", "GOPROXY": "off", "GOSUMDB": "off", "GOTOOLCHAIN": "local",
              "CGO_ENABLED": GOENV.get("CGO_ENABLED", "1")})

PATTERNS = [
    "github.com/mit-pdos/go-nfsd/nfs",
    "github.com/mit-pdos/go-nfsd/simple",
    "github.com/mit-pdos/go-nfsd/kvs",
    "github.com/mit-pdos/go-nfsd/nfstypes",
    "github.com/zeldovich/go-rpcgen/rfc1057",
    "github.com/zeldovich/go-rpcgen/rfc1813",
]


class BuildError(Exception):
    pass


def run(cmd, cwd=None, env=None, check=True):
    p = subprocess.run(cmd, cwd=cwd, env=env or GOENV, stdout=subprocess.PIPE, stderr=subprocess.STDOUT, text=True)
    if check and p.returncode != 0:
        raise BuildError("command failed: %s\n%s" % (" ".join(cmd), p.stdout))
    return p.stdout


def tree_files(root, exts, skip=(".git", ".build")):
    out = []
    for d, dirs, files in os.walk(root):
        dirs[:] = sorted(x for x in dirs if x not in skip)
        for f in sorted(files):
            if f.endswith(exts):
                out.append(os.path.join(d, f))
    return out


def build_key(race):
    h = hashlib.sha256()
    for root, exts in ((REPO, (".go", "go.mod", "go.sum")), (os.path.join(VERIF, "sim"), (".go", "go.mod", "go.sum")),
                       (os.path.join(VERIF, "harness"), (".go",))):
        for f in tree_files(root, exts):
            h.update(os.path.relpath(f, root).encode())
            h.update(b"\0")
            with open(f, "rb") as fh:
                h.update(fh.read())
            h.update(b"\0")
    h.update(run(["go", "version"]).encode())
    h.update(b"race" if race else b"norace")
    return h.hexdigest()[:20]


def module_dir(mod):
    out = run(["go", "list", "-m", "-f", "{{.Dir}} {{.Version}}", mod], cwd=REPO).strip()
    d, v = out.rsplit(" ", 1)
    if not d or not os.path.isdir(d):
        raise BuildError("module %s not available offline: %r" % (mod, out))
    return d, v


def copy_tree(src, dst, ignore=None):
    shutil.copytree(src, dst, ignore=ignore)
    for d, dirs, files in os.walk(dst):
        os.chmod(d, 0o755)
        for f in files:
            os.chmod(os.path.join(d, f), 0o644)


def rewriter_path():
    p = os.path.join(BUILD, "simrewrite")
    src = tree_files(os.path.join(VERIF, "sim", "rewrite"), (".go", "go.mod", "go.sum"))
    stamp = hashlib.sha256(b"".join(open(f, "rb").read() for f in src)).hexdigest()[:16]
    sf = p + ".stamp"
    if os.path.exists(p) and os.path.exists(sf) and open(sf).read() == stamp:
        return p
    os.makedirs(BUILD, exist_ok=True)
    run(["go", "build", "-o", p, "."], cwd=os.path.join(VERIF, "sim", "rewrite"))
    open(sf, "w").write(stamp)
    return p


def ensure_worker(race=False, log=sys.stderr):
    """Returns the path of the worker binary for /repo's current working tree."""
    key = build_key(race)
    outdir = os.path.join(BUILD, key)
    binp = os.path.join(outdir, "vworker")
    if os.path.exists(binp) and not os.environ.get("VERIF_NOCACHE"):
        try:
            os.utime(os.path.dirname(binp))  # in use: keeps it from being pruned
        except OSError:
            pass
        return binp
    t0 = time.time()
    rw = rewriter_path()
    os.makedirs(outdir, exist_ok=True)
    S = tempfile.mkdtemp(prefix="verif-build.", dir="/var/tmp")
    try:
        copy_tree(REPO, os.path.join(S, "go-nfsd"), ignore=shutil.ignore_patterns(".git"))
        jd, jv = module_dir("github.com/mit-pdos/go-journal")
        rd, rv = module_dir("github.com/zeldovich/go-rpcgen")
        copy_tree(jd, os.path.join(S, "deps", "go-journal"))
        copy_tree(rd, os.path.join(S, "deps", "go-rpcgen"))
        H = os.path.join(S, "h")
        copy_tree(os.path.join(VERIF, "harness"), H)
        gomod = """module vworker

go 1.22

require (
	github.com/mit-pdos/go-nfsd v0.0.0
	github.com/mit-pdos/go-journal %s
	github.com/zeldovich/go-rpcgen %s
	github.com/anishathalye/porcupine v1.3.0
	verifsim v0.0.0
)

replace github.com/mit-pdos/go-nfsd => %s
replace github.com/mit-pdos/go-journal => %s
replace github.com/zeldovich/go-rpcgen => %s
replace verifsim => %s
""" % (jv, rv, os.path.join(S, "go-nfsd"), os.path.join(S, "deps", "go-journal"),
            os.path.join(S, "deps", "go-rpcgen"), os.path.join(VERIF, "sim"))
        open(os.path.join(H, "go.mod"), "w").write(gomod)
        shutil.copy(os.path.join(REPO, "go.sum"), os.path.join(H, "go.sum"))
        # the dependency copies resolve their own imports through the main module
        out = run([rw, "-dir", H, "-root", S] + PATTERNS, cwd=H)
        with open(os.path.join(outdir, "rewrite.log"), "w") as fh:
            fh.write(out)
        cmd = ["go", "build", "-tags", "verif", "-o", binp]
        if race:
            cmd.insert(2, "-race")
        cmd.append(".")
        run(cmd, cwd=H)
    except BuildError:
        shutil.rmtree(outdir, ignore_errors=True)
        raise
    finally:
        shutil.rmtree(S, ignore_errors=True)
    prune(keep=key)
    print("build: %s in %.1fs (race=%s)" % (binp, time.time() - t0, race), file=log)
    return binp


def prune(keep, maxkeep=6):
    ents = []
    for e in os.listdir(BUILD):
        p = os.path.join(BUILD, e)
        if os.path.isdir(p) and os.path.exists(os.path.join(p, "vworker")):
            ents.append((os.path.getmtime(p), p))
    ents.sort(reverse=True)
    # (a binary that was built or used in the last three hours may belong to a check
    # that is still running - several checks can run at once, on different trees)
    for mt, p in ents[maxkeep:]:
        if os.path.basename(p) != keep and time.time() - mt > 3 * 3600:
            shutil.rmtree(p, ignore_errors=True)


if __name__ == "__main__":
    try:
        print(ensure_worker(race="--race" in sys.argv))
    except BuildError as e:
        print("BUILD-ERROR:", e, file=sys.stderr)
        sys.exit(2)
