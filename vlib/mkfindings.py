#!/usr/bin/env python3
"""Regenerates the 'fixed' entries of known_findings.json from /repo's fix: commits
(commit hashes change when the fix series is rebased). Open findings are kept."""
import json, os, subprocess
VERIF = os.path.dirname(os.path.dirname(os.path.abspath(__file__)))
# keyword in the commit subject -> properties the defect violated
MAP = [
    ("shorter than 16 bytes", ["C11"]), ("outside the inode table", ["C11"]), ("simple: a file handle shorter", ["C11", "C17"]),
    ("above the announced maximum file size", ["C19", "C11"]), ("truncated directories", ["C04", "C10", "C02"]),
    ("REMOVE of a non-empty directory", ["C04", "C05", "C02"]), ("REMOVE/RMDIR of '.' or '..'", ["C11"]),
    ("exactly the announced name_max", ["C19"]), ("empty string was accepted", ["C04", "C02"]),
    ("aborted transaction left", ["C09", "C10"]), ("RENAME onto the name '.' or '..'", ["C06", "C04"]),
    ("ACCESS, FSINFO and PATHCONF", ["C08", "C02"]), ("never dropped the link its '..'", ["C05", "C04", "C08"]),
    ("not block-aligned kept the old bytes", ["C12", "C02"]), ("without checking the handles' generation", ["C08"]),
    ("locked an inode number twice", ["C06"]), ("comparator that indexed the unsorted", ["C06"]),
    ("write verifier in WRITE and COMMIT", ["C07"]), ("allocators were built from the bitmap blocks on the raw disk", ["C01", "C05", "C10"]),
    ("reset the shrink mark", ["C05", "C04", "C12"]), ("announced wtmax", ["C19"]),
    ("building a directory's name cache locked", ["C06"]), ("READDIRPLUS locked each listed inode", ["C06"]),
    ("indexed the result of lockInodes", ["C11", "C03"]), ("into a different directory left its '..'", ["C04", "C02"]),
    ("post-operation attributes from the inode after the commit", ["C03", "C14"]),
    ("simple: SETATTR allocated", ["C17", "C11"]), ("freshly allocated indirect block", ["C05", "C09", "C04"]),
    ("entry's own offset as its cookie", ["C13"]), ("caller's buffer to the journal without copying", ["C02", "C12", "C01"]),
    ("wraps around 2^64", ["C11", "C19"]), ("count exceeds the length of the data", ["C11"]),
    ("not a multiple of the entry size", ["C11"]), ("into its own subtree", ["C04", "C02"]),
    ("truncated target", ["C09", "C19", "C05"]),
    ("never started the shrinker", ["C05"]),
    ("does not fit in one journal transaction", ["C09", "C10", "C05", "C07"]),
    ("not a single data block", ["C15", "C04"]),
]
log = subprocess.run(["git", "-C", "/repo", "log", "--reverse", "--format=%h\t%s"], stdout=subprocess.PIPE, text=True).stdout
p = os.path.join(VERIF, "known_findings.json")
d = json.load(open(p))
keep = [f for f in d["findings"] if f.get("status") == "open"]
fixed = []
unmapped = []
for ln in log.splitlines():
    h, s = ln.split("\t", 1)
    if not s.startswith("fix:"):
        continue
    props = None
    for k, pr in MAP:
        if k in s:
            props = pr
    if props is None:
        unmapped.append(s)
        props = []
    for pr in props or ["?"]:
        fixed.append({"status": "fixed", "property": pr, "commit": h, "what": s[len("fix:"):].strip(),
                      "line": "fixed: property=%s %s %s" % (pr, h, s[len("fix:"):].strip())})
d["findings"] = fixed + keep
json.dump(d, open(p, "w"), indent=1)
print("known_findings.json: %d fixed entries (%d commits), %d open; unmapped: %s" % (len(fixed), len(set(f["commit"] for f in fixed)), len(keep), unmapped))
