#!/usr/bin/env python3
"""Runs checks against a seeded breaking change: apply the patch to /repo,
run the given checks, undo the patch, record which check reported what.

  seedtest.py <seeded-id> <prop> [<prop> ...]     (uses /verif/seeded/<id>/patch.diff)
"""
import json, os, subprocess, sys, time
VERIF = os.path.dirname(os.path.dirname(os.path.abspath(__file__)))
REPO = os.environ.get("VERIF_REPO", "/repo")
sid = sys.argv[1]
props = sys.argv[2:]
sdir = os.path.join(VERIF, "seeded", sid)
patch = os.path.join(sdir, "patch.diff")
assert subprocess.run(["git", "-C", REPO, "status", "--porcelain"], stdout=subprocess.PIPE, text=True).stdout.strip() == "", REPO + " is not clean"
subprocess.run(["git", "-C", REPO, "apply", patch], check=True)
results = {}
try:
    for p in props:
        env = dict(os.environ)
        env.setdefault("VERIF_BUDGET_S", os.environ.get("SEED_BUDGET_S", "40"))
        t0 = time.time()
        q = subprocess.run([os.path.join(VERIF, "check"), p, "quick"], stdout=subprocess.PIPE, stderr=subprocess.PIPE, text=True, env=env, cwd=VERIF)
        viol = [l for l in q.stdout.splitlines() if l.startswith("VIOLATION")]
        detail = [l for l in q.stderr.splitlines() if l.startswith("check: %s violated" % p)]
        results[p] = {"exit": q.returncode, "violation": bool(viol), "wall_s": round(time.time() - t0, 1),
                      "detail": (detail[0][:700] if detail else "")}
        print("%s on seeded %s: exit %d %s (%.0fs) %s" % (p, sid, q.returncode, "VIOLATION" if viol else "-", time.time() - t0, (detail[0][:300] if detail else "")), flush=True)
        if q.returncode == 2:
            print(q.stderr[-1500:])
finally:
    subprocess.run(["git", "-C", REPO, "checkout", "--", "."], check=True)
    subprocess.run(["git", "-C", REPO, "clean", "-fdq"], check=False)
rp = os.path.join(sdir, os.environ.get("SEED_RESULTS_FILE", "results.json"))
old = json.load(open(rp)) if os.path.exists(rp) else {}
old.update(results)
json.dump(old, open(rp, "w"), indent=1)
