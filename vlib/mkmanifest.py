#!/usr/bin/env python3
"""Regenerates MANIFEST.json from vlib/props.py (single source of truth)."""
import json, os, sys
sys.path.insert(0, os.path.dirname(os.path.dirname(os.path.abspath(__file__))))
from vlib import props

VERIF = os.path.dirname(os.path.dirname(os.path.abspath(__file__)))
ALL = ["C%02d" % i for i in range(1, 20)]

checks = []
for pid in sorted(props.PROPS):
    p = props.PROPS[pid]
    checks.append({
        "property_id": pid,
        "quick_cmd": "./check %s quick" % pid,
        "thorough_cmd": "./check %s thorough" % pid,
        "evidence_file": "/verif/evidence/%s.json" % pid,
        "replay_cmd_template": "./check replay {path}",
        "engine": "simrt",
        "level_claimed": {"category": p["level"], "text": p["level_text"], "design_ref": p.get("design_ref", "DESIGN.md section 5")},
        "level_note": p.get("level_note", "; ".join(props.COMMON_ASSUME)),
        "technique": p.get("technique", "deterministic simulation with fault injection: seeded search over schedules and fault sequences"),
    })

na = []
for pid in ALL:
    if pid not in props.PROPS:
        na.append({"property_id": pid, "reason": props.NOT_APPLICABLE.get(pid, "check not built yet in this round")})

hooks_commits = []
hc = os.path.join(VERIF, "hooks_commits.txt")
if os.path.exists(hc):
    hooks_commits = [l.strip() for l in open(hc) if l.strip()]

m = {
    "version": 1,
    "setup_cmd": "./setup.sh",
    "hooks": {
        "guard": "verif",
        "enable": "checks copy /repo's working tree to a scratch directory, rewrite it for the simulator and build it with `go build -tags verif`; the hook files in /repo are accessor-only files guarded by //go:build verif",
        "baseline_off_cmd": "cd /repo && GOFLAGS=-mod=mod GOPROXY=off GOSUMDB=off go test -vet=off -count=1 -timeout 25m ./...",
        "source_commits": hooks_commits,
        "add_only": True,
    },
    "engines": [{
        "name": "simrt", "path": "/verif/sim, /verif/harness, /verif/check",
        "serves_properties": sorted(props.PROPS),
        "kind_free_text": "deterministic simulator: baton scheduler replacing sync/go/time in rewritten scratch copies of go-nfsd, go-journal and go-rpcgen; simulated disk with crash-image enumeration; seeded workloads, reference models, porcupine",
    }],
    "checks": checks,
    "not_applicable": na,
    "notes": "See DESIGN.md. Exit 2 from a check means infrastructure trouble (build failure, unsupported construct, worker death), never a verdict.",
}
json.dump(m, open(os.path.join(VERIF, "MANIFEST.json"), "w"), indent=1)
print("MANIFEST.json: %d checks, %d not claimed" % (len(checks), len(na)))
