#!/bin/sh
# Builds the framework from files on disk only (offline).
set -e
cd "$(dirname "$0")"
export GOFLAGS=-mod=mod GOPROXY=off GOSUMDB=off GOTOOLCHAIN=local
mkdir -p .build evidence replays
(cd sim/rewrite && go build -o ../../.build/simrewrite.tmp . && mv ../../.build/simrewrite.tmp ../../.build/simrewrite)
rm -f .build/simrewrite.stamp
# unit tests of the simulator's primitives (channel model: rendezvous, buffers, close, select, deadlock)
(cd sim/simrt && go test -count=1 . >/dev/null)
python3 ./check build >/dev/null
echo "setup: ok"
