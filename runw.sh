#!/bin/sh
# dev helper: build and run one worker, pretty-print
cd /verif && python3 vlib/build.py >/dev/null 2>/tmp/build.err || { cat /tmp/build.err | tail -40; exit 2; }
W=$(ls -td .build/*/vworker | head -1)
P=$1; SEED=${2:-1}; COUNT=${3:-30}; BUDGET=${4:-60}; TIER=${5:-quick}
timeout 600 $W run -prop $P -seed $SEED -count $COUNT -budget $BUDGET -tier $TIER 2>&1 | python3 -c "
import sys,json
for l in sys.stdin:
    try: d=json.loads(l)
    except Exception: print(l[:600]); continue
    if d['type']=='summary':
        for k in ('fingerprints','sched_prints','states','samples'): d[k]=len(d[k] or [])
        print(json.dumps(d)[:1800])
    else:
        v=d['spec']['violation']; print('VIOL seed',d['spec']['seed'],v['signature'],'|',v['detail'][:1500]); print(v.get('stack','')[:1800])
        json.dump(d['spec'],open('/var/tmp/lastviol.json','w'))
"
