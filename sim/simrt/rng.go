package simrt

// Rng is a splitmix64 generator implemented here so that sequences do not
// depend on the Go release. Every random choice of the simulator and of the
// harness comes from an Rng derived from VERIF_SEED.
type Rng struct{ s uint64 }

//go:norace
func NewRng(seed uint64) *Rng { return &Rng{s: seed} }

// Stream derives an independent generator for a named purpose, so that
// shrinking one dimension (e.g. the workload) does not re-deal another (the
// schedule).
//
//go:norace
func Stream(seed uint64, name string) *Rng {
	h := uint64(1469598103934665603)
	for i := 0; i < len(name); i++ {
		h ^= uint64(name[i])
		h *= 1099511628211
	}
	r := &Rng{s: seed ^ (h * 0x9E3779B97F4A7C15)}
	r.Uint64()
	return r
}

//go:norace
func (r *Rng) Uint64() uint64 {
	r.s += 0x9E3779B97F4A7C15
	z := r.s
	z = (z ^ (z >> 30)) * 0xBF58476D1CE4E5B9
	z = (z ^ (z >> 27)) * 0x94D049BB133111EB
	return z ^ (z >> 31)
}

// Intn returns a value in [0,n). n must be > 0.
//
//go:norace
func (r *Rng) Intn(n int) int {
	if n <= 0 {
		panic("simrt.Rng.Intn: n <= 0")
	}
	return int(r.Uint64() % uint64(n))
}

//go:norace
func (r *Rng) Uint64n(n uint64) uint64 {
	if n == 0 {
		panic("simrt.Rng.Uint64n: n == 0")
	}
	return r.Uint64() % n
}

//go:norace
func (r *Rng) Float() float64 {
	return float64(r.Uint64()>>11) / float64(1<<53)
}

//go:norace
func (r *Rng) Chance(p float64) bool { return r.Float() < p }

// Pick returns one of the given weights' indices with probability
// proportional to the weight.
//
//go:norace
func (r *Rng) Pick(weights []int) int {
	tot := 0
	for _, w := range weights {
		tot += w
	}
	if tot <= 0 {
		return 0
	}
	x := r.Intn(tot)
	for i, w := range weights {
		if x < w {
			return i
		}
		x -= w
	}
	return len(weights) - 1
}
