package simrt

import (
	"fmt"
	"strings"
	"testing"
)

func runSeeds(t *testing.T, n int, body func() string) {
	for seed := uint64(1); seed <= uint64(n); seed++ {
		for _, pol := range []Config{{Policy: "rw", SwitchP: 0.5}, {Policy: "rr"}, {Policy: "pct", PCTDepth: 2}} {
			pol.Seed = seed
			var got1, got2 string
			r1 := Run(pol, func() { got1 = body() })
			r2 := Run(pol, func() { got2 = body() })
			if r1.Outcome != nil {
				t.Fatalf("seed %d %s: %s: %s", seed, pol.Policy, r1.Outcome.Kind, r1.Outcome.Detail)
			}
			if got1 != got2 || r1.Fingerprint != r2.Fingerprint {
				t.Fatalf("seed %d %s: not deterministic: %q vs %q", seed, pol.Policy, got1, got2)
			}
			if strings.HasPrefix(got1, "BAD") {
				t.Fatalf("seed %d %s: %s", seed, pol.Policy, got1)
			}
		}
	}
}

func TestChanRendezvousAndBuffer(t *testing.T) {
	runSeeds(t, 40, func() string {
		unb := MakeChan[int](0)
		buf := MakeChan[int](2)
		done := MakeChan[struct{}](0)
		var wg WaitGroup
		sum := 0
		var mu Mutex
		for p := 0; p < 3; p++ {
			wg.Add(1)
			p := p
			Go("producer", func() {
				defer wg.Done()
				for i := 0; i < 4; i++ {
					if p%2 == 0 {
						unb.Send(p*10 + i)
					} else {
						buf.Send(p*10 + i)
					}
				}
			})
		}
		Go("closer", func() { wg.Wait(); unb.Close(); buf.Close() })
		for c := 0; c < 2; c++ {
			Go("consumer", func() {
				a, b := unb, buf
				for a != nil || b != nil {
					v := Slot(unb)
					var ok bool
					switch Select(false, RecvCase(a, v, &ok), RecvCase(b, v, &ok)) {
					case 0:
						if !ok {
							a = nil
							continue
						}
					case 1:
						if !ok {
							b = nil
							continue
						}
					}
					mu.Lock()
					sum += *v
					mu.Unlock()
				}
				done.Send(struct{}{})
			})
		}
		done.Recv()
		done.Recv()
		want := 0
		for p := 0; p < 3; p++ {
			for i := 0; i < 4; i++ {
				want += p*10 + i
			}
		}
		if sum != want {
			return fmt.Sprintf("BAD sum %d want %d", sum, want)
		}
		if buf.Len() != 0 || buf.Cap() != 2 {
			return "BAD len/cap"
		}
		if v, ok := buf.Recv2(); ok || v != 0 {
			return "BAD closed receive"
		}
		return fmt.Sprint(sum)
	})
}

func TestChanFIFOAndUnbufferedOrder(t *testing.T) {
	runSeeds(t, 20, func() string {
		c := MakeChan[int](3)
		for i := 0; i < 3; i++ {
			c.Send(i)
		}
		if Select(true, SendCase(c, 9)) != -1 {
			return "BAD send on a full channel succeeded"
		}
		for i := 0; i < 3; i++ {
			if v := c.Recv(); v != i {
				return "BAD order"
			}
		}
		if Select(true, RecvCase(c, nil, nil)) != -1 {
			return "BAD receive from an empty channel succeeded"
		}
		// an unbuffered send completes only when a receiver took the value
		u := MakeChan[int](0)
		stage := 0
		var smu Mutex
		Go("sender", func() { u.Send(1); smu.Lock(); stage = 2; smu.Unlock() })
		Yield()
		Yield()
		smu.Lock()
		st := stage
		smu.Unlock()
		if st != 0 {
			return "BAD unbuffered send completed without a receiver"
		}
		u.Recv()
		return "ok"
	})
}

func TestChanPanics(t *testing.T) {
	for _, tc := range []struct {
		name string
		f    func()
	}{
		{"send on closed channel", func() { c := MakeChan[int](1); c.Close(); c.Send(1) }},
		{"close of closed channel", func() { c := MakeChan[int](1); c.Close(); c.Close() }},
		{"close of nil channel", func() { var c *Chan[int]; c.Close() }},
		{"send on closed channel", func() {
			c := MakeChan[int](0)
			Go("closer", func() { Yield(); c.Close() })
			c.Send(1)
		}},
	} {
		r := Run(Config{Seed: 3, Policy: "rr"}, tc.f)
		if r.Outcome == nil || !strings.Contains(r.Outcome.Detail, tc.name) {
			t.Fatalf("%s: outcome %+v", tc.name, r.Outcome)
		}
	}
}

func TestChanDeadlockDetected(t *testing.T) {
	for _, f := range []func(){
		func() { c := MakeChan[int](0); c.Recv() },
		func() { var c *Chan[int]; c.Send(1) },
		func() { c := MakeChan[int](0); Go("x", func() { c.Send(1) }); d := MakeChan[int](0); d.Recv() },
		func() { var c *Chan[int]; Select(false, RecvCase(c, nil, nil)) },
	} {
		r := Run(Config{Seed: 5, Policy: "rw", SwitchP: 0.3}, f)
		if r.Outcome == nil || r.Outcome.Kind != "deadlock" {
			t.Fatalf("deadlock not reported: %+v", r.Outcome)
		}
	}
}
