package simrt

import (
	"fmt"
	"unsafe"
)

// Locker mirrors sync.Locker.
type Locker interface {
	Lock()
	Unlock()
}

// Mutex is a simulated sync.Mutex: mutual exclusion, any waiter may win after
// an unlock (as in Go), unlocking an unlocked mutex is fatal (as in Go).
type Mutex struct {
	locked  bool
	owner   *Task
	waiters []*Task
}

//go:norace
func (m *Mutex) Lock() {
	s := S
	if s == nil {
		if m.locked {
			panic("simrt.Mutex: contention outside a simulation")
		}
		m.locked = true
		return
	}
	s.schedPoint()
	for m.locked {
		s.Stats.MutexBlock++
		m.waiters = append(m.waiters, s.cur)
		holder := "?"
		if m.owner != nil {
			holder = fmt.Sprintf("task %d %s", m.owner.ID, m.owner.Name)
		}
		s.block(fmt.Sprintf("mutex %p held by %s", m, holder))
	}
	m.locked = true
	m.owner = s.cur
	raceAcquire(unsafe.Pointer(m))
}

//go:norace
func (m *Mutex) TryLock() bool {
	s := S
	if s != nil {
		s.schedPoint()
	}
	if m.locked {
		return false
	}
	m.locked = true
	if s != nil {
		m.owner = s.cur
	}
	raceAcquire(unsafe.Pointer(m))
	return true
}

//go:norace
func (m *Mutex) Unlock() {
	s := S
	if s == nil {
		if !m.locked {
			panic("sync: unlock of unlocked mutex")
		}
		m.locked = false
		return
	}
	if s.cur.killed {
		return // deferred unlock of a task that is being unwound
	}
	if !m.locked {
		s.abort(&Outcome{Kind: "fatal", Detail: "sync: unlock of unlocked mutex", Task: s.cur.Name, Tag: s.cur.Tag})
	}
	raceRelease(unsafe.Pointer(m))
	m.locked = false
	m.owner = nil
	for _, w := range m.waiters {
		s.wake(w)
	}
	m.waiters = m.waiters[:0]
	s.schedPoint()
}

// RWMutex is a simulated sync.RWMutex (writer-preferring like Go's).
type RWMutex struct {
	writer   bool
	readers  int
	wwaiting int
	waiters  []*Task
}

//go:norace
func (m *RWMutex) Lock() {
	s := S
	if s == nil {
		m.writer = true
		return
	}
	s.schedPoint()
	m.wwaiting++
	for m.writer || m.readers > 0 {
		m.waiters = append(m.waiters, s.cur)
		s.block(fmt.Sprintf("rwmutex %p (write)", m))
	}
	m.wwaiting--
	m.writer = true
	raceAcquire(unsafe.Pointer(m))
}

//go:norace
func (m *RWMutex) Unlock() {
	s := S
	if s == nil {
		m.writer = false
		return
	}
	if s.cur.killed {
		return
	}
	if !m.writer {
		s.abort(&Outcome{Kind: "fatal", Detail: "sync: Unlock of unlocked RWMutex", Task: s.cur.Name, Tag: s.cur.Tag})
	}
	raceRelease(unsafe.Pointer(m))
	m.writer = false
	m.wakeAll(s)
	s.schedPoint()
}

//go:norace
func (m *RWMutex) wakeAll(s *Sim) {
	for _, w := range m.waiters {
		s.wake(w)
	}
	m.waiters = m.waiters[:0]
}

//go:norace
func (m *RWMutex) RLock() {
	s := S
	if s == nil {
		m.readers++
		return
	}
	s.schedPoint()
	for m.writer || m.wwaiting > 0 {
		m.waiters = append(m.waiters, s.cur)
		s.block(fmt.Sprintf("rwmutex %p (read)", m))
	}
	m.readers++
	raceAcquire(unsafe.Pointer(m))
}

//go:norace
func (m *RWMutex) RUnlock() {
	s := S
	if s == nil {
		m.readers--
		return
	}
	if s.cur.killed {
		return
	}
	if m.readers <= 0 {
		s.abort(&Outcome{Kind: "fatal", Detail: "sync: RUnlock of unlocked RWMutex", Task: s.cur.Name, Tag: s.cur.Tag})
	}
	raceReleaseMerge(unsafe.Pointer(m))
	m.readers--
	if m.readers == 0 {
		m.wakeAll(s)
	}
	s.schedPoint()
}

func (m *RWMutex) RLocker() Locker { return (*rlocker)(m) }

type rlocker RWMutex

func (r *rlocker) Lock()   { (*RWMutex)(r).RLock() }
func (r *rlocker) Unlock() { (*RWMutex)(r).RUnlock() }

// Cond is a simulated sync.Cond: Signal wakes the longest waiter (Go's
// notifyList is FIFO), Broadcast all of them, no spurious wake-ups.
type Cond struct {
	L     Locker
	queue []*condWaiter
}

type condWaiter struct {
	t        *Task
	signaled bool
}

func NewCond(l Locker) *Cond { return &Cond{L: l} }

//go:norace
func (c *Cond) Wait() {
	s := S
	if s == nil {
		panic("simrt.Cond.Wait outside a simulation")
	}
	if s.cur.killed {
		panic(killSentinel)
	}
	s.Stats.CondWait++
	w := &condWaiter{t: s.cur}
	c.queue = append(c.queue, w)
	c.unlockNoYield(s)
	for !w.signaled {
		s.block(fmt.Sprintf("cond %p", c))
	}
	c.L.Lock()
}

// unlockNoYield releases L; for a simulated Mutex no scheduling point is
// needed between the enqueue and the park (the enqueue is what matters).
//
//go:norace
func (c *Cond) unlockNoYield(s *Sim) {
	if m, ok := c.L.(*Mutex); ok {
		if !m.locked {
			s.abort(&Outcome{Kind: "fatal", Detail: "sync: Cond.Wait with unlocked mutex", Task: s.cur.Name, Tag: s.cur.Tag})
		}
		raceRelease(unsafe.Pointer(m))
		m.locked = false
		m.owner = nil
		for _, w := range m.waiters {
			s.wake(w)
		}
		m.waiters = m.waiters[:0]
		return
	}
	c.L.Unlock()
}

//go:norace
func (c *Cond) Signal() {
	s := S
	if s == nil {
		return
	}
	if s.cur.killed {
		return
	}
	for len(c.queue) > 0 {
		w := c.queue[0]
		c.queue = c.queue[1:]
		if w.t.state == stDone || w.t.killed {
			continue
		}
		w.signaled = true
		s.wake(w.t)
		break
	}
	s.schedPoint()
}

//go:norace
func (c *Cond) Broadcast() {
	s := S
	if s == nil {
		return
	}
	if s.cur.killed {
		return
	}
	for _, w := range c.queue {
		w.signaled = true
		s.wake(w.t)
	}
	c.queue = nil
	s.schedPoint()
}

// WaitGroup is a simulated sync.WaitGroup.
type WaitGroup struct {
	n       int
	waiters []*Task
}

//go:norace
func (wg *WaitGroup) Add(d int) {
	s := S
	wg.n += d
	if wg.n < 0 {
		panic("sync: negative WaitGroup counter")
	}
	if d < 0 {
		raceReleaseMerge(unsafe.Pointer(wg))
	}
	if wg.n == 0 && s != nil {
		for _, w := range wg.waiters {
			s.wake(w)
		}
		wg.waiters = wg.waiters[:0]
	}
}

func (wg *WaitGroup) Done() { wg.Add(-1) }

//go:norace
func (wg *WaitGroup) Wait() {
	s := S
	if s == nil {
		if wg.n != 0 {
			panic("simrt.WaitGroup.Wait outside a simulation")
		}
		return
	}
	s.schedPoint()
	for wg.n > 0 {
		wg.waiters = append(wg.waiters, s.cur)
		s.block(fmt.Sprintf("waitgroup %p", wg))
	}
	raceAcquire(unsafe.Pointer(wg))
}

// Once is a simulated sync.Once.
type Once struct {
	done bool
	m    Mutex
}

func (o *Once) Do(f func()) {
	o.m.Lock()
	defer o.m.Unlock()
	if !o.done {
		defer func() { o.done = true }()
		f()
	}
}

// Pool is a simulated sync.Pool: LIFO with seeded random drops, which its
// contract allows ("any item stored in the Pool may be removed automatically
// at any time").
type Pool struct {
	New   func() any
	items []any
}

//go:norace
func (p *Pool) Get() any {
	s := S
	if s != nil {
		s.schedPoint()
	}
	if n := len(p.items); n > 0 {
		x := p.items[n-1]
		p.items = p.items[:n-1]
		raceAcquire(unsafe.Pointer(p))
		return x
	}
	if p.New != nil {
		return p.New()
	}
	return nil
}

//go:norace
func (p *Pool) Put(x any) {
	s := S
	if x == nil {
		return
	}
	if s != nil && s.pool.Chance(0.2) {
		return // dropped, as a GC cycle would
	}
	raceReleaseMerge(unsafe.Pointer(p))
	p.items = append(p.items, x)
	if s != nil {
		if s.cur.killed {
			return
		}
		s.schedPoint()
	}
}

// Map is a simulated sync.Map: every method is one atomic step preceded by a
// scheduling point (the internal mutex provides both, and the happens-before
// edges the race detector expects). Range visits the entries in insertion
// order, so that it is deterministic.
type Map struct {
	mu    Mutex
	m     map[any]any
	order []any
}

func (m *Map) Load(key any) (value any, ok bool) {
	m.mu.Lock()
	defer m.mu.Unlock()
	value, ok = m.m[key]
	return
}

func (m *Map) storeLocked(key, value any) {
	if m.m == nil {
		m.m = map[any]any{}
	}
	if _, ok := m.m[key]; !ok {
		m.order = append(m.order, key)
	}
	m.m[key] = value
}

func (m *Map) deleteLocked(key any) {
	if _, ok := m.m[key]; !ok {
		return
	}
	delete(m.m, key)
	for i, k := range m.order {
		if k == key {
			m.order = append(m.order[:i:i], m.order[i+1:]...)
			break
		}
	}
}

func (m *Map) Store(key, value any) {
	m.mu.Lock()
	defer m.mu.Unlock()
	m.storeLocked(key, value)
}

func (m *Map) Clear() {
	m.mu.Lock()
	defer m.mu.Unlock()
	m.m, m.order = nil, nil
}

func (m *Map) LoadOrStore(key, value any) (actual any, loaded bool) {
	m.mu.Lock()
	defer m.mu.Unlock()
	if v, ok := m.m[key]; ok {
		return v, true
	}
	m.storeLocked(key, value)
	return value, false
}

func (m *Map) LoadAndDelete(key any) (value any, loaded bool) {
	m.mu.Lock()
	defer m.mu.Unlock()
	value, loaded = m.m[key]
	m.deleteLocked(key)
	return
}

func (m *Map) Delete(key any) {
	m.mu.Lock()
	defer m.mu.Unlock()
	m.deleteLocked(key)
}

func (m *Map) Swap(key, value any) (previous any, loaded bool) {
	m.mu.Lock()
	defer m.mu.Unlock()
	previous, loaded = m.m[key]
	m.storeLocked(key, value)
	return
}

func (m *Map) CompareAndSwap(key, old, new any) bool {
	m.mu.Lock()
	defer m.mu.Unlock()
	if v, ok := m.m[key]; ok && v == old {
		m.m[key] = new
		return true
	}
	return false
}

func (m *Map) CompareAndDelete(key, old any) bool {
	m.mu.Lock()
	defer m.mu.Unlock()
	if v, ok := m.m[key]; ok && v == old {
		m.deleteLocked(key)
		return true
	}
	return false
}

// Range calls f for a snapshot of the entries (sync.Map allows any consistent
// or inconsistent view for concurrent changes).
func (m *Map) Range(f func(key, value any) bool) {
	m.mu.Lock()
	keys := append([]any{}, m.order...)
	vals := make([]any, len(keys))
	for i, k := range keys {
		vals[i] = m.m[k]
	}
	m.mu.Unlock()
	for i, k := range keys {
		if !f(k, vals[i]) {
			return
		}
	}
}
