package simrt

import "time"

// Since mirrors time.Since on the simulated clock.
func Since(t time.Time) time.Duration { return Now().Sub(t) }

// FaultHook decides cooperative fault points ("buggify"). It is set by the
// harness for fault-injecting configurations and nil otherwise.
var FaultHook func(site string) bool

// FaultPoint is called from injected code at sites where something unusual
// but legal may happen (e.g. the allocator is momentarily exhausted).
//
//go:norace
func FaultPoint(site string) bool {
	if S == nil || FaultHook == nil {
		return false
	}
	return FaultHook(site)
}

// LockHook observes lockmap events: kind 0 = wants, 1 = acquired, 2 = releases.
var LockHook func(task *Task, kind int, addr uint64)

//go:norace
func LockEvent(kind int, addr uint64) {
	if S == nil || LockHook == nil {
		return
	}
	if S.cur.killed {
		return
	}
	LockHook(S.cur, kind, addr)
}
