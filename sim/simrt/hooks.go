package simrt

import "time"

// Since mirrors time.Since on the simulated clock.
func Since(t time.Time) time.Duration { return Now().Sub(t) }

// FaultHook decides cooperative fault points ("buggify"). It is set by the
// harness for fault-injecting configurations and nil otherwise.
var FaultHook func(site string) bool

// FaultPoint is called from injected code at sites where something unusual
// but legal may happen (e.g. the allocator is momentarily exhausted).
//
//go:norace
func FaultPoint(site string) bool {
	if S == nil || FaultHook == nil {
		return false
	}
	return FaultHook(site)
}

// AllocLowest is a tuning knob of the simulated runs ("buggify"): when set, the
// number allocators of the journal library start every search at the bottom
// instead of where the last one ended, so a number that was just freed is
// handed out again at once. Any free number is a legal answer of an allocator;
// nothing may depend on the next-fit order.
var AllocLowest bool

// LockHook observes lockmap events: kind 0 = wants, 1 = acquired, 2 = releases.
var LockHook func(task *Task, kind int, addr uint64)

//go:norace
func LockEvent(kind int, addr uint64) {
	if S == nil {
		return
	}
	if S.cur.killed {
		return
	}
	t := S.cur
	switch kind {
	case 0:
		t.wantsLock, t.wants = addr, true
	case 1:
		t.wants = false
		t.heldLocks = append(t.heldLocks, addr)
	case 2:
		for i, h := range t.heldLocks {
			if h == addr {
				t.heldLocks = append(t.heldLocks[:i:i], t.heldLocks[i+1:]...)
				break
			}
		}
	}
	if LockHook != nil {
		LockHook(S.cur, kind, addr)
	}
}

// ---- reach probes: "this rare condition was hit" ----

var probeNames []string
var probeCounts []int64

// Probe counts one hit of a named rare condition (injected by the rewriter
// at the entry of chosen functions).
//
//go:norace
func Probe(name string) {
	for i := range probeNames {
		if probeNames[i] == name {
			probeCounts[i]++
			return
		}
	}
	probeNames = append(probeNames, name)
	probeCounts = append(probeCounts, 1)
}

// TakeProbes returns and resets the probe counters.
//
//go:norace
func TakeProbes() map[string]int64 {
	m := map[string]int64{}
	for i := range probeNames {
		if probeCounts[i] != 0 {
			m[probeNames[i]] = probeCounts[i]
			probeCounts[i] = 0
		}
	}
	return m
}
