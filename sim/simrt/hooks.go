package simrt

import "time"

// Since mirrors time.Since on the simulated clock.
func Since(t time.Time) time.Duration { return Now().Sub(t) }

// FaultHook decides cooperative fault points ("buggify"). It is set by the
// harness for fault-injecting configurations and nil otherwise.
var FaultHook func(site string) bool

// FaultPoint is called from injected code at sites where something unusual
// but legal may happen (e.g. the allocator is momentarily exhausted).
//
//go:norace
func FaultPoint(site string) bool {
	if S == nil || FaultHook == nil {
		return false
	}
	return FaultHook(site)
}

// LockHook observes lockmap events: kind 0 = wants, 1 = acquired, 2 = releases.
var LockHook func(task *Task, kind int, addr uint64)

//go:norace
func LockEvent(kind int, addr uint64) {
	if S == nil {
		return
	}
	if S.cur.killed {
		return
	}
	t := S.cur
	switch kind {
	case 0:
		t.wantsLock, t.wants = addr, true
	case 1:
		t.wants = false
		t.heldLocks = append(t.heldLocks, addr)
	case 2:
		for i, h := range t.heldLocks {
			if h == addr {
				t.heldLocks = append(t.heldLocks[:i:i], t.heldLocks[i+1:]...)
				break
			}
		}
	}
	if LockHook != nil {
		LockHook(S.cur, kind, addr)
	}
}
