//go:build race

package simrt

import (
	"runtime"
	"unsafe"
)

// RaceEnabled reports whether this is a -race build.
const RaceEnabled = true

//go:norace
func raceAcquire(p unsafe.Pointer) { runtime.RaceAcquire(p) }

//go:norace
func raceRelease(p unsafe.Pointer) { runtime.RaceRelease(p) }

//go:norace
func raceReleaseMerge(p unsafe.Pointer) { runtime.RaceReleaseMerge(p) }

// Baton hand-offs use channels; the detector must not see them as
// synchronisation, or every pair of accesses would look ordered.
//
//go:norace
func raceDisable() { runtime.RaceDisable() }

//go:norace
func raceEnable() { runtime.RaceEnable() }
