// Package simrt is the deterministic simulation runtime: a baton scheduler
// under which every goroutine of the system under test runs one at a time,
// plus drop-in replacements for the sync primitives, `go`, and time.Now.
//
// The transformed system imports this package under the name `sync`, so the
// exported names mirror package sync.
package simrt

import (
	"fmt"
	"os"
	"runtime/debug"
	"strings"
	"time"
	"unsafe"
)

const (
	stRunnable = iota
	stBlocked
	stDone
)

type killT struct{}

var killSentinel = &killT{}

// Task is one simulated goroutine.
type Task struct {
	ID        int
	Name      string
	Group     int
	Tag       string // what the task is doing (set by the harness), for reports
	wake      chan struct{}
	state     int
	killed    bool
	waitOn    string
	prio      int64
	weight    float64
	polling   bool
	held      bool
	wants     bool
	wantsLock uint64
	heldLocks []uint64
}

// Outcome is an abnormal end of a simulation.
type Outcome struct {
	Kind   string `json:"kind"` // panic | deadlock | budget | unsupported | fatal
	Detail string `json:"detail"`
	Task   string `json:"task"`
	Tag    string `json:"tag"`
	Stack  string `json:"stack,omitempty"`
}

type Starve struct {
	Match  string  // substring of the task name
	Weight float64 // relative weight when competing (1 = normal)
}

type Config struct {
	Seed     uint64
	Policy   string  // "rw" (random walk), "pct", "rr" (round robin), "fifo"
	SwitchP  float64 // rw: probability of switching at a scheduling point
	PCTDepth int
	PCTSteps uint64 // horizon over which PCT change points are spread
	Starve   []Starve
	MaxSteps uint64
	// SecondChance: when the step budget trips, switch to the fair scheduler and
	// grant this many further steps before reporting (liveness is demanded only
	// once adversarial scheduling stops)
	SecondChance uint64
	Clock        int // 0 monotone, 1 constant, 2 jumping
	Replay       []uint32
	Record       bool
}

// Sim is one simulation.
type Sim struct {
	cfg     Config
	tasks   []*Task // live tasks, ordered by ID
	cur     *Task
	nextID  int
	rng     *Rng
	clk     *Rng
	pool    *Rng
	steps   uint64
	aborted bool
	outcome *Outcome
	fin     chan struct{}
	now     int64
	fp      uint64 // FNV-1a fingerprint of the execution
	fpSched uint64 // fingerprint of scheduling decisions only
	choices uint64 // decisions with >= 2 candidates
	dec     []uint32
	replayI int
	pctPts  []uint64
	fair    bool
	start   int64
	elapsed int64
	Stats   Stats
}

type Stats struct {
	Steps         uint64
	Switches      uint64
	Choices       uint64
	Tasks         int
	MutexBlock    uint64
	ChanOps       uint64
	ChanBlock     uint64
	CondWait      uint64
	SimNanos      int64
	SecondChances uint64
}

// Debug prints task life-cycle events to stderr.
var Debug = os.Getenv("VERIF_DEBUG") != ""

// S is the running simulation (nil outside Run).
var S *Sim

//go:norace
func fnv(h uint64, v uint64) uint64 {
	for i := 0; i < 8; i++ {
		h ^= v & 0xff
		h *= 1099511628211
		v >>= 8
	}
	return h
}

// Note mixes a value into the execution fingerprint (used by the disk, the
// harness and the determinism self-test).
//
//go:norace
func Note(v uint64) {
	if S != nil {
		S.fp = fnv(S.fp, v)
	}
}

//go:norace
func NoteBytes(b []byte) uint64 {
	h := uint64(1469598103934665603)
	for _, c := range b {
		h ^= uint64(c)
		h *= 1099511628211
	}
	Note(h)
	return h
}

// Result of a simulation.
type Result struct {
	Outcome     *Outcome
	Fingerprint uint64
	SchedPrint  uint64
	Decisions   []uint32
	Stats       Stats
}

// Run executes main as task 0 of a fresh simulation and returns when every
// task has finished or been killed.
func Run(cfg Config, main func()) *Result {
	if S != nil {
		panic("simrt.Run: nested simulation")
	}
	if cfg.MaxSteps == 0 {
		cfg.MaxSteps = 5_000_000
	}
	if cfg.Policy == "" {
		cfg.Policy = "rw"
		cfg.SwitchP = 0.1
	}
	s := &Sim{
		cfg:     cfg,
		rng:     Stream(cfg.Seed, "schedule"),
		clk:     Stream(cfg.Seed, "clock"),
		pool:    Stream(cfg.Seed, "pool"),
		fin:     make(chan struct{}),
		fp:      1469598103934665603,
		fpSched: 1469598103934665603,
		now:     1_700_000_000_000_000_000 + int64(Stream(cfg.Seed, "epoch").Uint64n(1_000_000_000_000_000)),
	}
	if cfg.Policy == "pct" {
		h := cfg.PCTSteps
		if h == 0 {
			h = 2000
		}
		for i := 0; i < cfg.PCTDepth; i++ {
			s.pctPts = append(s.pctPts, s.rng.Uint64n(h))
		}
	}
	s.start = s.now
	S = s
	t := s.newTask("main", 0)
	s.cur = t
	s.startTask(t, main)
	raceDisable()
	t.wake <- struct{}{}
	<-s.fin
	raceEnable()
	raceAcquire(unsafe.Pointer(s))
	S = nil
	s.Stats.Steps = s.steps
	s.Stats.Choices = s.choices
	s.Stats.SimNanos = s.elapsed
	return &Result{Outcome: s.outcome, Fingerprint: s.fp, SchedPrint: s.fpSched, Decisions: s.dec, Stats: s.Stats}
}

//go:norace
func (s *Sim) newTask(name string, group int) *Task {
	t := &Task{ID: s.nextID, Name: name, Group: group, wake: make(chan struct{}, 1), state: stRunnable, weight: 1}
	s.nextID++
	for _, st := range s.cfg.Starve {
		if strings.Contains(name, st.Match) {
			t.weight = st.Weight
		}
	}
	t.prio = int64(s.rng.Uint64()>>2) + 1
	s.tasks = append(s.tasks, t)
	s.Stats.Tasks++
	return t
}

func (s *Sim) startTask(t *Task, f func()) {
	go func() {
		raceDisable()
		<-t.wake
		raceEnable()
		defer func() {
			r := recover()
			if r != nil && r != killSentinel {
				stack := string(debug.Stack())
				if u, ok := r.(unsupportedT); ok {
					s.setOutcome(&Outcome{Kind: "unsupported", Detail: string(u), Task: t.Name, Tag: t.Tag})
				} else {
					s.setOutcome(&Outcome{Kind: "panic", Detail: fmt.Sprint(r), Task: t.Name, Tag: t.Tag, Stack: stack})
				}
				s.killAll()
			}
			s.exitTask(t)
		}()
		if t.killed {
			panic(killSentinel)
		}
		f()
		if t.ID == 0 {
			// normal end of the simulation: unwind everything else
			s.killAll()
		}
	}()
}

//go:norace
func (s *Sim) setOutcome(o *Outcome) {
	if s.outcome == nil {
		s.outcome = o
	}
}

//go:norace
func (s *Sim) killAll() {
	s.aborted = true
	for _, t := range s.tasks {
		t.killed = true
		if t.state == stBlocked {
			t.state = stRunnable
		}
	}
}

// abort ends the simulation with an outcome; never returns.
//
//go:norace
func (s *Sim) abort(o *Outcome) {
	s.setOutcome(o)
	s.killAll()
	panic(killSentinel)
}

//go:norace
func (s *Sim) exitTask(t *Task) {
	if Debug {
		fmt.Fprintf(os.Stderr, "simrt: step %d task %d %s exits (killed=%v)\n", s.steps, t.ID, t.Name, t.killed)
	}
	t.state = stDone
	// everything a task did happens-before the end of the simulation (so
	// that successive simulations in one process are ordered for the detector)
	raceReleaseMerge(unsafe.Pointer(s))
	j := 0
	for _, x := range s.tasks {
		if x != t {
			s.tasks[j] = x
			j++
		}
	}
	s.tasks = s.tasks[:j]
	if len(s.tasks) == 0 {
		close(s.fin)
		return
	}
	next := s.pick(nil)
	if next == nil {
		s.setOutcome(s.deadlockOutcome())
		s.killAll()
		next = s.pick(nil)
	}
	s.cur = next
	s.Stats.Switches++
	raceDisable()
	next.wake <- struct{}{}
	raceEnable()
}

//go:norace
func (s *Sim) deadlockOutcome() *Outcome {
	var b strings.Builder
	for _, t := range s.tasks {
		if t.state == stBlocked {
			fmt.Fprintf(&b, "[task %d %s (%s) blocked on %s", t.ID, t.Name, t.Tag, t.waitOn)
			if t.wants {
				fmt.Fprintf(&b, "; wants inode lock %d", t.wantsLock)
			}
			if len(t.heldLocks) > 0 {
				fmt.Fprintf(&b, "; holds inode locks %v", t.heldLocks)
			}
			b.WriteString("] ")
		}
	}
	return &Outcome{Kind: "deadlock", Detail: b.String()}
}

// pick chooses the next task to run among the runnable ones. cur is the task
// that is giving up the processor voluntarily (nil if it cannot continue).
//
//go:norace
func (s *Sim) pick(cur *Task) *Task {
	var cand [64]*Task
	n := 0
	for _, t := range s.tasks {
		if t.state == stRunnable && !t.held && n < len(cand) {
			cand[n] = t
			n++
		}
	}
	if n == 0 {
		// only held tasks (directed preemption) remain runnable: release them
		for _, t := range s.tasks {
			if t.state == stRunnable && n < len(cand) {
				cand[n] = t
				n++
			}
		}
	}
	if n == 0 {
		return nil
	}
	if n == 1 {
		return cand[0]
	}
	if s.aborted {
		return cand[0]
	}
	s.choices++
	var ch *Task
	if s.cfg.Replay != nil {
		var idx uint32 = ^uint32(0)
		if s.replayI < len(s.cfg.Replay) {
			idx = s.cfg.Replay[s.replayI]
			s.replayI++
		}
		if int(idx) < n {
			ch = cand[idx]
		} else if cur != nil && cur.state == stRunnable {
			ch = cur
		} else {
			ch = cand[0]
		}
	} else {
		ch = s.policyPick(cand[:n], cur)
	}
	idx := 0
	for i := 0; i < n; i++ {
		if cand[i] == ch {
			idx = i
		}
	}
	if s.cfg.Record {
		s.dec = append(s.dec, uint32(idx))
	}
	s.fpSched = fnv(s.fpSched, uint64(ch.ID)<<8|uint64(n))
	s.fp = fnv(s.fp, uint64(ch.ID)<<8|uint64(n))
	return ch
}

//go:norace
func (s *Sim) policyPick(cand []*Task, cur *Task) *Task {
	pol := s.cfg.Policy
	if s.fair {
		pol = "rr"
	}
	switch pol {
	case "fifo":
		// run the current task as long as possible, then the lowest id
		if cur != nil && cur.state == stRunnable && !cur.polling {
			return cur
		}
		for _, t := range cand {
			if !t.polling {
				return t
			}
		}
		return cand[0]
	case "rr":
		// next id after cur, cyclically
		if cur == nil {
			cur = s.cur
		}
		for _, t := range cand {
			if t.ID > cur.ID {
				return t
			}
		}
		return cand[0]
	case "pct":
		for _, p := range s.pctPts {
			if p == s.steps && cur != nil {
				cur.prio = -int64(s.steps) // lowest so far
			}
		}
		var best *Task
		for _, t := range cand {
			pr := t.prio
			if t.polling {
				pr = -1 << 62
			}
			if best == nil || pr > bestPrio(best) {
				best = t
			}
		}
		return best
	default: // rw
		if cur != nil && cur.state == stRunnable && !cur.polling && !s.rng.Chance(s.cfg.SwitchP) {
			return cur
		}
		tot := 0.0
		for _, t := range cand {
			tot += t.effWeight()
		}
		x := s.rng.Float() * tot
		for _, t := range cand {
			x -= t.effWeight()
			if x < 0 {
				return t
			}
		}
		return cand[len(cand)-1]
	}
}

//go:norace
func bestPrio(t *Task) int64 {
	if t.polling {
		return -1 << 62
	}
	return t.prio
}

//go:norace
func (t *Task) effWeight() float64 {
	if t.polling {
		return t.weight * 0.05
	}
	return t.weight
}

// step accounts one scheduling point and enforces the step budget.
//
//go:norace
func (s *Sim) step() {
	s.steps++
	if s.steps > s.cfg.MaxSteps && !s.aborted && !s.fair && s.cfg.SecondChance > 0 {
		s.fair = true
		s.cfg.MaxSteps += s.cfg.SecondChance
		s.Stats.SecondChances++
	}
	if s.steps > s.cfg.MaxSteps && !s.aborted {
		s.abort(&Outcome{Kind: "budget", Detail: fmt.Sprintf("run exceeded %d scheduling steps", s.cfg.MaxSteps), Task: s.cur.Name, Tag: s.cur.Tag})
	}
}

// schedPoint is a point where the scheduler may move the baton.
//
//go:norace
func (s *Sim) schedPoint() {
	t := s.cur
	if t.killed {
		panic(killSentinel)
	}
	s.step()
	next := s.pick(t)
	if next != t {
		s.switchTo(t, next)
	}
}

//go:norace
func (s *Sim) switchTo(t *Task, next *Task) {
	s.cur = next
	s.Stats.Switches++
	raceDisable()
	next.wake <- struct{}{}
	<-t.wake
	raceEnable()
	if t.killed {
		panic(killSentinel)
	}
}

// block parks the current task until another task makes it runnable.
//
//go:norace
func (s *Sim) block(what string) {
	t := s.cur
	if t.killed {
		panic(killSentinel)
	}
	s.step()
	t.state = stBlocked
	t.waitOn = what
	next := s.pick(nil)
	if next == nil {
		s.abort(s.deadlockOutcome())
	}
	s.switchTo(t, next)
	t.waitOn = ""
}

//go:norace
func (s *Sim) wake(t *Task) {
	if t.state == stBlocked {
		t.state = stRunnable
	}
}

// ---- API for the transformed code and the harness ----

// Go starts f as a new simulated goroutine.
func Go(name string, f func()) {
	s := S
	if s == nil {
		panic("simrt.Go outside a simulation")
	}
	if s.cur.killed {
		panic(killSentinel)
	}
	t := s.newTask(name, s.cur.Group)
	if Debug {
		fmt.Fprintf(os.Stderr, "simrt: step %d task %d %s spawned by %d (%s)\n", s.steps, t.ID, t.Name, s.cur.ID, s.cur.Tag)
	}
	s.startTask(t, f)
	s.schedPoint()
}

// Yield is an explicit scheduling point.
//
//go:norace
func Yield() {
	if S != nil {
		S.schedPoint()
	}
}

// Cur returns the running task.
//
//go:norace
func Cur() *Task {
	if S == nil {
		return nil
	}
	return S.cur
}

//go:norace
func SetTag(tag string) {
	if S != nil {
		S.cur.Tag = tag
	}
}

// Steps returns the number of scheduling steps taken so far.
//
//go:norace
func Steps() uint64 {
	if S == nil {
		return 0
	}
	return S.steps
}

// SetFair switches the scheduler to round-robin (used to give an operation
// that exceeded its budget under adversarial scheduling a second chance).
//
//go:norace
func SetFair(on bool) {
	if S != nil {
		S.fair = on
	}
}

// OthersRunnable reports whether any task other than the caller can run.
//
//go:norace
func OthersRunnable() bool {
	s := S
	for _, t := range s.tasks {
		if t != s.cur && t.state == stRunnable {
			return true
		}
	}
	return false
}

// WaitUntil yields until cond holds. If no other task can run while cond is
// false the simulation ends as a deadlock (nothing could ever make it true).
func WaitUntil(what string, cond func() bool) {
	s := S
	t := s.cur
	for !cond() {
		if !OthersRunnable() {
			// nothing else can run, so this evaluation cannot be overtaken
			// (cond itself may contain scheduling points)
			if cond() {
				return
			}
			s.abort(&Outcome{Kind: "deadlock", Detail: "waiting for " + what + ": " + s.deadlockOutcome().Detail, Task: t.Name, Tag: t.Tag})
		}
		t.polling = true
		func() {
			defer func() { t.polling = false }()
			s.schedPoint()
		}()
	}
}

// Quiesce yields until every other task is blocked (background threads idle).
func Quiesce() {
	s := S
	t := s.cur
	for OthersRunnable() {
		t.polling = true
		func() {
			defer func() { t.polling = false }()
			s.schedPoint()
		}()
	}
}

// HoldUntilOthersStuck parks the caller until every other task is blocked or
// finished (directed preemption: "delay this step as long as possible").
func HoldUntilOthersStuck() {
	s := S
	t := s.cur
	t.held = true
	defer func() { t.held = false }()
	for othersRunnableUnheld() {
		s.schedPoint()
	}
}

//go:norace
func othersRunnableUnheld() bool {
	s := S
	for _, t := range s.tasks {
		if t != s.cur && t.state == stRunnable && !t.held {
			return true
		}
	}
	return false
}

// Scope runs f with the current task temporarily a member of group g. If the
// group is killed while f runs, f is unwound and Scope reports killed=true.
func Scope(g int, f func()) (killed bool) {
	s := S
	t := s.cur
	old := t.Group
	t.Group = g
	defer func() {
		t.Group = old
		if r := recover(); r != nil {
			if r == killSentinel && !s.aborted {
				t.killed = false
				killed = true
				return
			}
			panic(r)
		}
	}()
	f()
	return false
}

// KillGroup kills every task of group g (a crash of that server
// incarnation). If the caller is in g it is unwound too (does not return).
//
//go:norace
func KillGroup(g int) {
	s := S
	self := false
	for _, t := range s.tasks {
		if t.Group == g {
			t.killed = true
			if t.state == stBlocked {
				t.state = stRunnable
			}
			if t == s.cur {
				self = true
			}
		}
	}
	if self {
		panic(killSentinel)
	}
}

// GroupAlive reports whether any task of group g other than the caller is live.
//
//go:norace
func GroupAlive(g int) bool {
	s := S
	for _, t := range s.tasks {
		if t.Group == g && t != s.cur {
			return true
		}
	}
	return false
}

// CountTasks counts live tasks of a group whose name contains substr.
//
//go:norace
func CountTasks(group int, substr string) int {
	n := 0
	for _, t := range S.tasks {
		if t.Group == group && t != S.cur && strings.Contains(t.Name, substr) && !strings.Contains(t.Name, "rpcserver") {
			n++
		}
	}
	return n
}

// Fail ends the simulation with a harness-defined outcome.
func Fail(kind, detail string) {
	s := S
	s.abort(&Outcome{Kind: kind, Detail: detail, Task: s.cur.Name, Tag: s.cur.Tag})
}

// IsKill reports whether a recovered panic value is the simulator's unwinding
// sentinel (which must be re-panicked, never swallowed).
func IsKill(v interface{}) bool { return v == killSentinel }

type unsupportedT string

// Unsupported is called by traps the rewriter inserts into functions that use
// constructs the simulator does not model (channels, select, timers).
func Unsupported(pos string) {
	panic(unsupportedT(pos))
}

// Now is the simulated clock.
//
//go:norace
func Now() time.Time {
	s := S
	if s == nil {
		return time.Unix(1_700_000_000, 0)
	}
	switch s.cfg.Clock {
	case 1:
	case 2:
		d := int64(1000 + s.clk.Uint64n(50_000_000))
		s.now += d
		s.elapsed += d
		if s.clk.Chance(0.05) {
			s.now += int64(s.clk.Uint64n(7200_000_000_000)) - 3600_000_000_000
		}
	default:
		d := int64(1000 + s.clk.Uint64n(20_000_000))
		s.now += d
		s.elapsed += d
	}
	return time.Unix(0, s.now)
}

// Sleep mirrors time.Sleep: simulated time passes and other tasks may run.
func Sleep(d time.Duration) {
	if S == nil {
		return
	}
	if d > 0 {
		S.now += int64(d)
		S.elapsed += int64(d)
	}
	// a sleeper lets every other runnable task go first (as a poller does), so
	// that a sleep-and-retry loop cannot starve the task it waits for
	t := S.cur
	t.polling = true
	defer func() { t.polling = false }()
	S.schedPoint()
}

// Advance moves the simulated clock forward.
//
//go:norace
func Advance(d time.Duration) {
	if S != nil {
		S.now += int64(d)
	}
}

// BlockedReport describes all blocked tasks (for diagnostics).
func BlockedReport() string {
	if S == nil {
		return ""
	}
	return S.deadlockOutcome().Detail
}
