package simrt

import (
	"fmt"
	"unsafe"
)

// Chan is a simulated Go channel. The rewriter replaces every channel type
// `chan T`, `<-chan T`, `chan<- T` by *Chan[T], `make(chan T, n)` by
// MakeChan[T](n), `c <- v` by c.Send(v), `<-c` by c.Recv() / c.Recv2(),
// `close(c)`, `len(c)`, `cap(c)` by the methods, `for v := range c` by a Recv2
// loop and `select` by Select. The behaviour is exactly what the Go
// specification allows: FIFO buffer of the given capacity, rendezvous for
// capacity 0, waiting senders and receivers served in FIFO order (as the Go
// runtime does), a nil channel blocks for ever, send on / close of a closed
// channel and close of a nil channel panic, receive from a closed and drained
// channel yields the zero value, select picks among the ready cases with the
// run's PRNG. Every operation is a scheduling point; all blocking is visible
// to the scheduler (deadlock detection).
//
// Race detector: every completed channel operation acquires and
// release-merges the channel's address, i.e. any two operations on one
// channel are ordered in execution order. That is more happens-before than
// the Go memory model gives (two sends do not synchronise with each other),
// so a race may be missed through it, but never invented.
type Chan[T any] struct {
	buf    []T
	cap    int
	closed bool
	sendq  []*chanWaiter[T]
	recvq  []*chanWaiter[T]
}

type waitState struct {
	t     *Task
	done  bool
	fired int
	// closedSend: a blocked sender was released by close (it must panic)
	closedSend bool
}

type chanWaiter[T any] struct {
	st  *waitState
	idx int
	val T  // sender: the value; receiver: the value received
	ok  bool
	dst *T
	okp *bool
}

func MakeChan[T any](n int) *Chan[T] {
	if n < 0 {
		panic("makechan: size out of range")
	}
	return &Chan[T]{cap: n}
}

// Slot returns a fresh variable of the channel's element type (used by the
// rewritten select to hold a received value without naming the type).
func Slot[T any](c *Chan[T]) *T { return new(T) }

//go:norace
func chanSync(p unsafe.Pointer) {
	raceAcquire(p)
	raceReleaseMerge(p)
}

//go:norace
func chanEnter(what string) *Sim {
	s := S
	if s == nil {
		panic("simrt.Chan: " + what + " outside a simulation")
	}
	if s.cur.killed {
		panic(killSentinel)
	}
	s.Stats.ChanOps++
	s.schedPoint()
	return s
}

//go:norace
func blockForever(s *Sim, what string) {
	for {
		s.block(what)
	}
}

// --- non-blocking halves (caller holds the baton; no scheduling inside) ---

// trySend: performs the send if it can proceed now.
//
//go:norace
func (c *Chan[T]) trySend(s *Sim, v T) bool {
	if c.closed {
		panic("send on closed channel")
	}
	for len(c.recvq) > 0 {
		w := c.recvq[0]
		c.recvq = c.recvq[1:]
		if w.st.done || w.st.t.state == stDone || w.st.t.killed {
			continue
		}
		w.st.done = true
		w.st.fired = w.idx
		w.val, w.ok = v, true
		if w.dst != nil {
			*w.dst = v
		}
		if w.okp != nil {
			*w.okp = true
		}
		chanSync(unsafe.Pointer(c))
		s.wake(w.st.t)
		return true
	}
	if len(c.buf) < c.cap {
		c.buf = append(c.buf, v)
		chanSync(unsafe.Pointer(c))
		return true
	}
	return false
}

//go:norace
func (c *Chan[T]) tryRecv(s *Sim) (v T, ok bool, did bool) {
	if len(c.buf) > 0 {
		v = c.buf[0]
		c.buf = c.buf[1:]
		// a waiting sender moves into the freed buffer slot
		for len(c.sendq) > 0 {
			w := c.sendq[0]
			c.sendq = c.sendq[1:]
			if w.st.done || w.st.t.state == stDone || w.st.t.killed {
				continue
			}
			w.st.done = true
			w.st.fired = w.idx
			c.buf = append(c.buf, w.val)
			s.wake(w.st.t)
			break
		}
		chanSync(unsafe.Pointer(c))
		return v, true, true
	}
	for len(c.sendq) > 0 {
		w := c.sendq[0]
		c.sendq = c.sendq[1:]
		if w.st.done || w.st.t.state == stDone || w.st.t.killed {
			continue
		}
		w.st.done = true
		w.st.fired = w.idx
		chanSync(unsafe.Pointer(c))
		s.wake(w.st.t)
		return w.val, true, true
	}
	if c.closed {
		chanSync(unsafe.Pointer(c))
		var zero T
		return zero, false, true
	}
	var zero T
	return zero, false, false
}

// --- blocking operations ---

//go:norace
func (c *Chan[T]) Send(v T) {
	s := chanEnter("send")
	if c == nil {
		blockForever(s, "send on nil channel")
	}
	chanSync(unsafe.Pointer(c)) // what the sender did before is visible to whoever takes the value
	if c.trySend(s, v) {
		s.schedPoint()
		return
	}
	st := &waitState{t: s.cur}
	w := &chanWaiter[T]{st: st, val: v}
	c.sendq = append(c.sendq, w)
	for !st.done {
		s.Stats.ChanBlock++
		s.block(fmt.Sprintf("send on channel %p (buffer %d/%d, no receiver)", c, len(c.buf), c.cap))
	}
	if st.closedSend {
		panic("send on closed channel")
	}
	chanSync(unsafe.Pointer(c))
}

//go:norace
func (c *Chan[T]) Recv() T {
	v, _ := c.Recv2()
	return v
}

//go:norace
func (c *Chan[T]) Recv2() (T, bool) {
	s := chanEnter("receive")
	if c == nil {
		blockForever(s, "receive from nil channel")
	}
	chanSync(unsafe.Pointer(c)) // (a receive on an unbuffered channel happens before the send completes)
	if v, ok, did := c.tryRecv(s); did {
		s.schedPoint()
		return v, ok
	}
	st := &waitState{t: s.cur}
	w := &chanWaiter[T]{st: st}
	c.recvq = append(c.recvq, w)
	for !st.done {
		s.Stats.ChanBlock++
		s.block(fmt.Sprintf("receive from channel %p (empty, not closed)", c))
	}
	chanSync(unsafe.Pointer(c))
	return w.val, w.ok
}

//go:norace
func (c *Chan[T]) Close() {
	s := chanEnter("close")
	if c == nil {
		panic("close of nil channel")
	}
	if c.closed {
		panic("close of closed channel")
	}
	c.closed = true
	chanSync(unsafe.Pointer(c))
	for _, w := range c.recvq {
		if w.st.done || w.st.t.state == stDone || w.st.t.killed {
			continue
		}
		w.st.done = true
		w.st.fired = w.idx
		var zero T
		w.val, w.ok = zero, false
		if w.dst != nil {
			*w.dst = zero
		}
		if w.okp != nil {
			*w.okp = false
		}
		s.wake(w.st.t)
	}
	c.recvq = nil
	for _, w := range c.sendq {
		if w.st.done || w.st.t.state == stDone || w.st.t.killed {
			continue
		}
		w.st.done = true
		w.st.fired = w.idx
		w.st.closedSend = true
		s.wake(w.st.t)
	}
	c.sendq = nil
	s.schedPoint()
}

//go:norace
func (c *Chan[T]) Len() int {
	if c == nil {
		return 0
	}
	return len(c.buf)
}

//go:norace
func (c *Chan[T]) Cap() int {
	if c == nil {
		return 0
	}
	return c.cap
}

// --- select ---

// SelCase is one communication clause of a select statement.
type SelCase interface {
	sync()
	try(s *Sim) bool
	enqueue(st *waitState, idx int)
	isNil() bool
}

type recvCase[T any] struct {
	c   *Chan[T]
	dst *T
	okp *bool
}

type sendCase[T any] struct {
	c *Chan[T]
	v T
}

// RecvCase: `case *dst, *okp = <-c` (dst and okp may be nil).
func RecvCase[T any](c *Chan[T], dst *T, okp *bool) SelCase { return &recvCase[T]{c, dst, okp} }

// SendCase: `case c <- v`.
func SendCase[T any](c *Chan[T], v T) SelCase { return &sendCase[T]{c, v} }

//go:norace
func (r *recvCase[T]) isNil() bool { return r.c == nil }

//go:norace
func (r *recvCase[T]) sync() { chanSync(unsafe.Pointer(r.c)) }

//go:norace
func (x *sendCase[T]) sync() { chanSync(unsafe.Pointer(x.c)) }

//go:norace
func (r *recvCase[T]) try(s *Sim) bool {
	v, ok, did := r.c.tryRecv(s)
	if !did {
		return false
	}
	if r.dst != nil {
		*r.dst = v
	}
	if r.okp != nil {
		*r.okp = ok
	}
	return true
}

//go:norace
func (r *recvCase[T]) enqueue(st *waitState, idx int) {
	r.c.recvq = append(r.c.recvq, &chanWaiter[T]{st: st, idx: idx, dst: r.dst, okp: r.okp})
}

//go:norace
func (x *sendCase[T]) isNil() bool { return x.c == nil }

//go:norace
func (x *sendCase[T]) try(s *Sim) bool { return x.c.trySend(s, x.v) }

//go:norace
func (x *sendCase[T]) enqueue(st *waitState, idx int) {
	x.c.sendq = append(x.c.sendq, &chanWaiter[T]{st: st, idx: idx, val: x.v})
}

// Select executes a select statement over the given cases and returns the
// index of the case that communicated, or -1 for the default clause. Among
// several ready cases one is chosen with the run's PRNG (Go chooses
// uniformly at random).
//
//go:norace
func Select(hasDefault bool, cases ...SelCase) int {
	s := chanEnter("select")
	// ready cases, probed in a PRNG-chosen rotation so that every ready case can win
	n := len(cases)
	for _, c := range cases {
		if !c.isNil() {
			c.sync()
		}
	}
	if n > 0 {
		start := 0
		if n > 1 {
			start = s.rng.Intn(n)
		}
		for k := 0; k < n; k++ {
			i := (start + k) % n
			if cases[i].isNil() {
				continue
			}
			if cases[i].try(s) {
				s.schedPoint()
				return i
			}
		}
	}
	if hasDefault {
		return -1
	}
	st := &waitState{t: s.cur, fired: -1}
	live := 0
	for i, c := range cases {
		if c.isNil() {
			continue
		}
		c.enqueue(st, i)
		live++
	}
	if live == 0 {
		blockForever(s, "select with no (non-nil) cases")
	}
	for !st.done {
		s.Stats.ChanBlock++
		s.block(fmt.Sprintf("select over %d channel operations, none ready", live))
	}
	if st.closedSend {
		panic("send on closed channel")
	}
	if st.fired >= 0 {
		cases[st.fired].sync()
	}
	return st.fired
}

func CloseChan[T any](c *Chan[T]) { c.Close() }
func ChanLen[T any](c *Chan[T]) int { return c.Len() }
func ChanCap[T any](c *Chan[T]) int { return c.Cap() }
