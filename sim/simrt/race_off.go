//go:build !race

package simrt

import "unsafe"

const RaceEnabled = false

func raceAcquire(p unsafe.Pointer)      {}
func raceRelease(p unsafe.Pointer)      {}
func raceReleaseMerge(p unsafe.Pointer) {}
func raceDisable()                      {}
func raceEnable()                       {}
