package simrt

import (
	"cmp"
	"sort"
)

// SortedKeys returns the keys of m in ascending order. The rewriter replaces
// every `range` over a map by a range over SortedKeys, which removes Go's
// randomised map iteration order from the system under test.
func SortedKeys[K cmp.Ordered, V any](m map[K]V) []K {
	keys := make([]K, 0, len(m))
	for k := range m {
		keys = append(keys, k)
	}
	sort.Slice(keys, func(i, j int) bool { return keys[i] < keys[j] })
	return keys
}
