// simrewrite transforms scratch copies of go-nfsd and its concurrency-bearing
// dependencies so that they run under the simrt scheduler. All edits are
// byte-offset edits that keep line numbers unchanged.
//
// usage: simrewrite -dir <harness module dir> -root <scratch root> pkgpattern...
//
// Every package of the dependency graph whose files live under -root (but not
// under -dir) is rewritten in place.
package main

import (
	"flag"
	"fmt"
	"go/ast"
	"go/token"
	"go/types"
	"os"
	"path/filepath"
	"sort"
	"strings"

	"golang.org/x/tools/go/packages"
)

type edit struct {
	off, del int
	ins      string
}

type fileEdits struct {
	name  string
	src   []byte
	edits []edit
	need  bool // needs the __simrt import
	tail  string
}

func (f *fileEdits) add(off, del int, ins string) {
	f.edits = append(f.edits, edit{off, del, ins})
}

// addTail appends a declaration to the end of the file once (used to keep
// imports referenced after their only use was rewritten away).
func (f *fileEdits) addTail(decl string) {
	if !strings.Contains(f.tail, decl) {
		f.tail += decl
	}
}

func fatalf(format string, a ...interface{}) {
	fmt.Fprintf(os.Stderr, "simrewrite: "+format+"\n", a...)
	os.Exit(2)
}

// constants turned into variables with a generated setter (tuning knobs)
var knobs = []struct{ pkg, name, setter string }{
	{"github.com/mit-pdos/go-nfsd/fstxn", "ICACHESZ", "VerifSetICACHESZ"},
	{"github.com/mit-pdos/go-journal/lockmap", "NSHARD", "VerifSetNSHARD"},
}

// code injected at the entry of named functions of the dependency copies
var injections = []struct{ pkg, recv, fn, code string }{
	{"github.com/mit-pdos/go-journal/alloc", "Alloc", "AllocNum", `if __simrt.FaultPoint("alloc") { return 0 }; `},
	{"github.com/mit-pdos/go-journal/lockmap", "LockMap", "Acquire", `__simrt.LockEvent(0, flataddr); defer __simrt.LockEvent(1, flataddr); `},
	{"github.com/mit-pdos/go-journal/lockmap", "LockMap", "Release", `__simrt.LockEvent(2, flataddr); `},
	// reach probes (rare branches the workloads are meant to hit)
	{"github.com/mit-pdos/go-nfsd/nfs", "", "lookupOrdered", `__simrt.Probe("probe_abort_and_relock"); `},
	{"github.com/mit-pdos/go-nfsd/shrinker", "ShrinkerSt", "DoShrink", `__simrt.Probe("probe_doshrink"); `},
	{"github.com/mit-pdos/go-nfsd/cache", "Cache", "evict", `__simrt.Probe("probe_icache_eviction"); `},
	{"github.com/mit-pdos/go-journal/wal", "sliding", "update", `__simrt.Probe("probe_log_absorption"); `},
	{"github.com/mit-pdos/go-nfsd/fstxn", "FsTxn", "Abort", `__simrt.Probe("probe_txn_abort"); `},
	{"github.com/mit-pdos/go-nfsd/inode", "Inode", "Shrink", `__simrt.Probe("probe_inode_shrink"); `},
}

var stats = map[string]int{}

func main() {
	dir := flag.String("dir", "", "harness module directory (load point)")
	root := flag.String("root", "", "scratch root; packages under it are rewritten")
	flag.Parse()
	if *dir == "" || *root == "" || flag.NArg() == 0 {
		fatalf("usage: simrewrite -dir D -root R patterns...")
	}
	absRoot, _ := filepath.Abs(*root)
	absDir, _ := filepath.Abs(*dir)
	cfg := &packages.Config{
		Mode: packages.NeedName | packages.NeedFiles | packages.NeedCompiledGoFiles | packages.NeedImports |
			packages.NeedDeps | packages.NeedTypes | packages.NeedSyntax | packages.NeedTypesInfo | packages.NeedModule,
		Dir:        absDir,
		BuildFlags: []string{"-tags=verif"},
		Env:        append(os.Environ(), "GOFLAGS=-mod=mod", "GOPROXY=off", "GOSUMDB=off", "GOTOOLCHAIN=local"),
	}
	pkgs, err := packages.Load(cfg, flag.Args()...)
	if err != nil {
		fatalf("load: %v", err)
	}
	seen := map[string]bool{}
	var all []*packages.Package
	var visit func(p *packages.Package)
	visit = func(p *packages.Package) {
		if seen[p.ID] {
			return
		}
		seen[p.ID] = true
		all = append(all, p)
		var keys []string
		for k := range p.Imports {
			keys = append(keys, k)
		}
		sort.Strings(keys)
		for _, k := range keys {
			visit(p.Imports[k])
		}
	}
	for _, p := range pkgs {
		visit(p)
	}
	nerr := 0
	for _, p := range all {
		under := false
		for _, f := range p.CompiledGoFiles {
			if strings.HasPrefix(f, absRoot+string(os.PathSeparator)) && !strings.HasPrefix(f, absDir+string(os.PathSeparator)) {
				under = true
			}
		}
		if !under {
			continue
		}
		for _, e := range p.Errors {
			fmt.Fprintf(os.Stderr, "simrewrite: %s: %v\n", p.PkgPath, e)
			nerr++
		}
	}
	if nerr > 0 {
		fatalf("the tree does not type-check (with -tags verif); cannot build the simulation")
	}
	for _, p := range all {
		under := false
		for _, f := range p.CompiledGoFiles {
			if strings.HasPrefix(f, absRoot+string(os.PathSeparator)) && !strings.HasPrefix(f, absDir+string(os.PathSeparator)) {
				under = true
			}
		}
		if !under {
			continue
		}
		rewritePkg(p)
	}
	var keys []string
	for k := range stats {
		keys = append(keys, k)
	}
	sort.Strings(keys)
	for _, k := range keys {
		fmt.Printf("simrewrite: %s=%d\n", k, stats[k])
	}
}

func rewritePkg(p *packages.Package) {
	stats["packages"]++
	knobSetters := ""
	for i, file := range p.Syntax {
		name := p.CompiledGoFiles[i]
		src, err := os.ReadFile(name)
		if err != nil {
			fatalf("%v", err)
		}
		fe := &fileEdits{name: name, src: src}
		tf := p.Fset.File(file.Pos())
		off := func(pos token.Pos) int { return tf.Offset(pos) }
		text := func(n ast.Node) string { return string(src[off(n.Pos()):off(n.End())]) }
		rel := func(pos token.Pos) string {
			ps := p.Fset.Position(pos)
			return fmt.Sprintf("%s/%s:%d", p.Name, filepath.Base(ps.Filename), ps.Line)
		}

		// 1. imports
		for _, im := range file.Imports {
			path := strings.Trim(im.Path.Value, "\"`")
			if path == "sync" {
				alias := "sync"
				if im.Name != nil {
					alias = im.Name.Name
				}
				fe.add(off(im.Pos()), off(im.End())-off(im.Pos()), alias+` "verifsim/simrt"`)
				stats["sync_imports"]++
			}
		}

		isPkg := func(x ast.Expr, path string) bool {
			id, ok := x.(*ast.Ident)
			if !ok {
				return false
			}
			pn, ok := p.TypesInfo.Uses[id].(*types.PkgName)
			return ok && pn.Imported().Path() == path
		}

		// traps: function declarations using unsupported constructs
		trapped := map[*ast.FuncDecl]string{}
		var curFn *ast.FuncDecl
		trap := func(pos token.Pos, why string) {
			if curFn == nil {
				fatalf("%s: %s at package level cannot be simulated", rel(pos), why)
			}
			if _, ok := trapped[curFn]; !ok {
				trapped[curFn] = rel(pos) + " " + why
			}
		}

		var nuniq int
		uniq := func(pfx string) string {
			nuniq++
			return fmt.Sprintf("__%s%d", pfx, nuniq)
		}

		for _, decl := range file.Decls {
			curFn = nil
			if fd, ok := decl.(*ast.FuncDecl); ok {
				curFn = fd
			}
			ast.Inspect(decl, func(n ast.Node) bool {
				switch x := n.(type) {
				case *ast.GoStmt:
					fe.need = true
					stats["go_stmts"]++
					call := x.Call
					nm := rel(x.Pos())
					if fl, ok := call.Fun.(*ast.FuncLit); ok && len(call.Args) == 0 {
						fe.add(off(x.Pos()), off(fl.Pos())-off(x.Pos()), fmt.Sprintf("__simrt.Go(%q, ", nm))
						fe.add(off(fl.End()), off(x.End())-off(fl.End()), ")")
					} else {
						var pre strings.Builder
						pre.WriteString("{ ")
						fv := uniq("f")
						pre.WriteString(fv + " := " + text(call.Fun) + "; ")
						var args []string
						for _, a := range call.Args {
							av := uniq("a")
							pre.WriteString(av + " := " + text(a) + "; ")
							args = append(args, av)
						}
						ell := ""
						if call.Ellipsis.IsValid() {
							ell = "..."
						}
						pre.WriteString(fmt.Sprintf("__simrt.Go(%q, func() { %s(%s%s) }) }", nm, fv, strings.Join(args, ", "), ell))
						old := text(x)
						fe.add(off(x.Pos()), off(x.End())-off(x.Pos()), pre.String()+strings.Repeat("\n", strings.Count(old, "\n")))
					}
				case *ast.RangeStmt:
					t := p.TypesInfo.TypeOf(x.X)
					if t == nil {
						return true
					}
					switch u := t.Underlying().(type) {
					case *types.Chan:
						trap(x.Pos(), "range over channel")
					case *types.Map:
						rewriteMapRange(fe, p, x, u, off, text, rel, uniq)
					}
				case *ast.SendStmt:
					trap(x.Pos(), "channel send")
				case *ast.SelectStmt:
					trap(x.Pos(), "select")
				case *ast.UnaryExpr:
					if x.Op == token.ARROW {
						trap(x.Pos(), "channel receive")
					}
				case *ast.CallExpr:
					if id, ok := x.Fun.(*ast.Ident); ok && id.Name == "make" && len(x.Args) > 0 {
						if _, isb := p.TypesInfo.Uses[id].(*types.Builtin); isb {
							if t := p.TypesInfo.TypeOf(x.Args[0]); t != nil {
								if _, ok := t.Underlying().(*types.Chan); ok {
									trap(x.Pos(), "make(chan)")
								}
							}
						}
					}
					if id, ok := x.Fun.(*ast.Ident); ok && id.Name == "close" {
						if _, isb := p.TypesInfo.Uses[id].(*types.Builtin); isb {
							trap(x.Pos(), "close(chan)")
						}
					}
				case *ast.SelectorExpr:
					if isPkg(x.X, "time") {
						switch x.Sel.Name {
						case "Now":
							fe.need = true
							fe.addTail("\nvar _ time.Duration\n")
							fe.add(off(x.Pos()), off(x.End())-off(x.Pos()), "__simrt.Now")
							stats["time_now"]++
						case "Since":
							fe.need = true
							fe.addTail("\nvar _ time.Duration\n")
							fe.add(off(x.Pos()), off(x.End())-off(x.Pos()), "__simrt.Since")
						case "Sleep":
							// a sleep is a scheduling point at which simulated time passes
							fe.need = true
							fe.addTail("\nvar _ time.Duration\n")
							fe.add(off(x.Pos()), off(x.End())-off(x.Pos()), "__simrt.Sleep")
						case "After", "AfterFunc", "NewTimer", "NewTicker", "Tick", "Until":
							trap(x.Pos(), "time."+x.Sel.Name)
						}
					}
					if isPkg(x.X, "math/rand") || isPkg(x.X, "crypto/rand") || isPkg(x.X, "math/rand/v2") {
						trap(x.Pos(), "randomness ("+x.Sel.Name+")")
					}
					if isPkg(x.X, "runtime") && x.Sel.Name == "Gosched" {
						fe.need = true
						fe.addTail("\nvar _ = runtime.NumCPU\n")
						fe.add(off(x.Pos()), off(x.End())-off(x.Pos()), "__simrt.Yield")
					}
					if isPkg(x.X, "runtime") && x.Sel.Name == "Goexit" {
						trap(x.Pos(), "runtime."+x.Sel.Name)
					}
					if isPkg(x.X, "os") && (x.Sel.Name == "Exit") {
						trap(x.Pos(), "os.Exit")
					}
				}
				return true
			})
		}
		// insert traps in deterministic order
		var tf2 []*ast.FuncDecl
		for fd := range trapped {
			tf2 = append(tf2, fd)
		}
		sort.Slice(tf2, func(i, j int) bool { return tf2[i].Pos() < tf2[j].Pos() })
		for _, fd := range tf2 {
			if fd.Body == nil {
				continue
			}
			fe.need = true
			stats["traps"]++
			fe.add(off(fd.Body.Lbrace)+1, 0, fmt.Sprintf(" __simrt.Unsupported(%q); ", trapped[fd]))
		}

		// knobs
		for _, k := range knobs {
			if p.PkgPath != k.pkg {
				continue
			}
			for _, decl := range file.Decls {
				gd, ok := decl.(*ast.GenDecl)
				if !ok || gd.Tok != token.CONST || gd.Lparen.IsValid() || len(gd.Specs) != 1 {
					continue
				}
				vs := gd.Specs[0].(*ast.ValueSpec)
				if len(vs.Names) == 1 && vs.Names[0].Name == k.name && vs.Type != nil {
					fe.add(off(gd.Pos()), len("const"), "var")
					knobSetters += fmt.Sprintf("func %s(v %s) bool { %s = v; return true }\n", k.setter, text(vs.Type), k.name)
					stats["knobs"]++
				}
			}
		}
		// injections
		for _, in := range injections {
			if p.PkgPath != in.pkg {
				continue
			}
			for _, decl := range file.Decls {
				fd, ok := decl.(*ast.FuncDecl)
				if !ok || fd.Name.Name != in.fn || fd.Body == nil {
					continue
				}
				if in.recv == "" {
					if fd.Recv != nil {
						continue
					}
				} else {
					if fd.Recv == nil {
						continue
					}
					rt := fd.Recv.List[0].Type
					if st, ok := rt.(*ast.StarExpr); ok {
						rt = st.X
					}
					if id, ok := rt.(*ast.Ident); !ok || id.Name != in.recv {
						continue
					}
				}
				code := in.code
				if strings.Contains(code, "flataddr") {
					if len(fd.Type.Params.List) != 1 || len(fd.Type.Params.List[0].Names) != 1 {
						continue
					}
					code = strings.ReplaceAll(code, "flataddr", fd.Type.Params.List[0].Names[0].Name)
				}
				fe.need = true
				fe.add(off(fd.Body.Lbrace)+1, 0, " "+code)
				stats["injections"]++
			}
		}

		if fe.need {
			fe.add(off(file.Name.End()), 0, `; import __simrt "verifsim/simrt"`)
		}
		if len(fe.edits) == 0 {
			continue
		}
		apply(fe)
		stats["files_changed"]++
	}
	// setters for knobs (always present so the harness links; report
	// availability through the return value)
	for _, k := range knobs {
		if p.PkgPath != k.pkg {
			continue
		}
		body := knobSetters
		if !strings.Contains(body, "func "+k.setter+"(") {
			body += fmt.Sprintf("func %s(v uint64) bool { return false }\n", k.setter)
		}
		dir := filepath.Dir(p.CompiledGoFiles[0])
		out := fmt.Sprintf("package %s\n\n%s", p.Name, body)
		if err := os.WriteFile(filepath.Join(dir, "zz_verif_knobs.go"), []byte(out), 0o644); err != nil {
			fatalf("%v", err)
		}
		knobSetters = ""
	}
}

func simpleExpr(e ast.Expr) bool {
	switch x := e.(type) {
	case *ast.Ident:
		return true
	case *ast.SelectorExpr:
		return simpleExpr(x.X)
	case *ast.ParenExpr:
		return simpleExpr(x.X)
	case *ast.StarExpr:
		return simpleExpr(x.X)
	case *ast.IndexExpr:
		return simpleExpr(x.X) && simpleExpr(x.Index)
	case *ast.BasicLit:
		return true
	}
	return false
}

func rewriteMapRange(fe *fileEdits, p *packages.Package, x *ast.RangeStmt, m *types.Map,
	off func(token.Pos) int, text func(ast.Node) string, rel func(token.Pos) string, uniq func(string) string) {
	kb, ok := m.Key().Underlying().(*types.Basic)
	if !ok || kb.Info()&(types.IsOrdered) == 0 {
		fatalf("%s: range over a map whose key type %s has no total order; cannot be made deterministic", rel(x.Pos()), m.Key())
	}
	if !simpleExpr(x.X) {
		fatalf("%s: range over a map expression with possible side effects (%s); cannot be rewritten", rel(x.Pos()), text(x.X))
	}
	fe.need = true
	stats["map_ranges"]++
	M := text(x.X)
	isBlank := func(e ast.Expr) bool {
		if e == nil {
			return true
		}
		id, ok := e.(*ast.Ident)
		return ok && id.Name == "_"
	}
	kv := uniq("k")
	okv := uniq("ok")
	var body strings.Builder
	hdr := fmt.Sprintf("for _, %s := range __simrt.SortedKeys(%s) {", kv, M)
	// presence re-check keeps Go's semantics for entries deleted during the loop
	if x.Tok == token.DEFINE {
		if !isBlank(x.Value) {
			fmt.Fprintf(&body, " %s, %s := %s[%s]; if !%s { continue }; _ = %s;", text(x.Value), okv, M, kv, okv, text(x.Value))
		} else {
			fmt.Fprintf(&body, " if _, %s := %s[%s]; !%s { continue };", okv, M, kv, okv)
		}
		if !isBlank(x.Key) {
			fmt.Fprintf(&body, " %s := %s; _ = %s;", text(x.Key), kv, text(x.Key))
		}
	} else {
		tv := uniq("v")
		fmt.Fprintf(&body, " %s, %s := %s[%s]; if !%s { continue }; _ = %s;", tv, okv, M, kv, okv, tv)
		if !isBlank(x.Value) {
			fmt.Fprintf(&body, " %s = %s;", text(x.Value), tv)
		}
		if !isBlank(x.Key) {
			fmt.Fprintf(&body, " %s = %s;", text(x.Key), kv)
		}
	}
	start := off(x.For)
	end := off(x.Body.Lbrace) + 1
	old := string(fe.src[start:end])
	fe.add(start, end-start, hdr+body.String()+strings.Repeat("\n", strings.Count(old, "\n")))
}

func apply(fe *fileEdits) {
	sort.SliceStable(fe.edits, func(i, j int) bool { return fe.edits[i].off < fe.edits[j].off })
	var out []byte
	pos := 0
	for _, e := range fe.edits {
		if e.off < pos {
			fatalf("%s: overlapping edits at offset %d (nested constructs are not supported)", fe.name, e.off)
		}
		out = append(out, fe.src[pos:e.off]...)
		out = append(out, e.ins...)
		pos = e.off + e.del
	}
	out = append(out, fe.src[pos:]...)
	out = append(out, fe.tail...)
	if err := os.WriteFile(fe.name, out, 0o644); err != nil {
		fatalf("%v", err)
	}
}
