// simrewrite transforms scratch copies of go-nfsd and its concurrency-bearing
// dependencies so that they run under the simrt scheduler. All edits are
// byte-offset edits that keep line numbers unchanged.
//
// usage: simrewrite -dir <harness module dir> -root <scratch root> pkgpattern...
//
// Every package of the dependency graph whose files live under -root (but not
// under -dir) is rewritten in place.
package main

import (
	"flag"
	"fmt"
	"go/ast"
	"go/token"
	"go/types"
	"os"
	"path/filepath"
	"sort"
	"strings"

	"golang.org/x/tools/go/packages"
)

type edit struct {
	off, del int
	ins      string
	prio     int64 // order among edits at the same offset (closing inserts < opening inserts < replacements)
}

type fileEdits struct {
	name  string
	src   []byte
	edits []edit
	need  bool // needs the __simrt import
	tail  string
}

func (f *fileEdits) add(off, del int, ins string) {
	f.edits = append(f.edits, edit{off, del, ins, 0})
}

var editSeq int64

// open inserts text in front of a node (outer nodes first), closeAt behind a
// node (inner nodes first); both sort before a replacement that starts at the
// same offset.
func (f *fileEdits) open(off int, ins string) {
	editSeq++
	f.edits = append(f.edits, edit{off, 0, ins, -(1 << 30) + editSeq})
}

func (f *fileEdits) closeAt(off int, ins string) {
	editSeq++
	f.edits = append(f.edits, edit{off, 0, ins, -(1 << 40) - editSeq})
}

// addTail appends a declaration to the end of the file once (used to keep
// imports referenced after their only use was rewritten away).
func (f *fileEdits) addTail(decl string) {
	if !strings.Contains(f.tail, decl) {
		f.tail += decl
	}
}

func fatalf(format string, a ...interface{}) {
	fmt.Fprintf(os.Stderr, "simrewrite: "+format+"\n", a...)
	os.Exit(2)
}

// constants turned into variables with a generated setter (tuning knobs)
var knobs = []struct{ pkg, name, setter string }{
	{"github.com/mit-pdos/go-nfsd/fstxn", "ICACHESZ", "VerifSetICACHESZ"},
	{"github.com/mit-pdos/go-journal/lockmap", "NSHARD", "VerifSetNSHARD"},
}

// code injected at the entry of named functions of the dependency copies
var injections = []struct{ pkg, recv, fn, code string }{
	{"github.com/mit-pdos/go-journal/alloc", "Alloc", "AllocNum", `if __simrt.FaultPoint("alloc") { return 0 }; `},
	{"github.com/mit-pdos/go-journal/alloc", "Alloc", "allocBit", `if __simrt.AllocLowest { a.mu.Lock(); a.next = 0; a.mu.Unlock() }; `},
	{"github.com/mit-pdos/go-journal/lockmap", "LockMap", "Acquire", `__simrt.LockEvent(0, flataddr); defer __simrt.LockEvent(1, flataddr); `},
	{"github.com/mit-pdos/go-journal/lockmap", "LockMap", "Release", `__simrt.LockEvent(2, flataddr); `},
	// reach probes (rare branches the workloads are meant to hit)
	{"github.com/mit-pdos/go-nfsd/nfs", "", "lookupOrdered", `__simrt.Probe("probe_abort_and_relock"); `},
	{"github.com/mit-pdos/go-nfsd/shrinker", "ShrinkerSt", "DoShrink", `__simrt.Probe("probe_doshrink"); `},
	{"github.com/mit-pdos/go-nfsd/cache", "Cache", "evict", `__simrt.Probe("probe_icache_eviction"); `},
	{"github.com/mit-pdos/go-journal/wal", "sliding", "update", `__simrt.Probe("probe_log_absorption"); `},
	{"github.com/mit-pdos/go-nfsd/fstxn", "FsTxn", "Abort", `__simrt.Probe("probe_txn_abort"); `},
	{"github.com/mit-pdos/go-nfsd/inode", "Inode", "Shrink", `__simrt.Probe("probe_inode_shrink"); `},
}

var stats = map[string]int{}

// import paths of the packages that are rewritten (channels created by any
// other package are real Go channels and cannot be simulated)
var rewritten = map[string]bool{}

func main() {
	dir := flag.String("dir", "", "harness module directory (load point)")
	root := flag.String("root", "", "scratch root; packages under it are rewritten")
	flag.Parse()
	if *dir == "" || *root == "" || flag.NArg() == 0 {
		fatalf("usage: simrewrite -dir D -root R patterns...")
	}
	absRoot, _ := filepath.Abs(*root)
	absDir, _ := filepath.Abs(*dir)
	cfg := &packages.Config{
		Mode: packages.NeedName | packages.NeedFiles | packages.NeedCompiledGoFiles | packages.NeedImports |
			packages.NeedDeps | packages.NeedTypes | packages.NeedSyntax | packages.NeedTypesInfo | packages.NeedModule,
		Dir:        absDir,
		BuildFlags: []string{"-tags=verif"},
		Env:        append(os.Environ(), "GOFLAGS=-mod=mod", "GOPROXY=off", "GOSUMDB=off", "GOTOOLCHAIN=local"),
	}
	pkgs, err := packages.Load(cfg, flag.Args()...)
	if err != nil {
		fatalf("load: %v", err)
	}
	seen := map[string]bool{}
	var all []*packages.Package
	var visit func(p *packages.Package)
	visit = func(p *packages.Package) {
		if seen[p.ID] {
			return
		}
		seen[p.ID] = true
		all = append(all, p)
		var keys []string
		for k := range p.Imports {
			keys = append(keys, k)
		}
		sort.Strings(keys)
		for _, k := range keys {
			visit(p.Imports[k])
		}
	}
	for _, p := range pkgs {
		visit(p)
	}
	nerr := 0
	for _, p := range all {
		under := false
		for _, f := range p.CompiledGoFiles {
			if strings.HasPrefix(f, absRoot+string(os.PathSeparator)) && !strings.HasPrefix(f, absDir+string(os.PathSeparator)) {
				under = true
			}
		}
		if !under {
			continue
		}
		for _, e := range p.Errors {
			fmt.Fprintf(os.Stderr, "simrewrite: %s: %v\n", p.PkgPath, e)
			nerr++
		}
	}
	if nerr > 0 {
		fatalf("the tree does not type-check (with -tags verif); cannot build the simulation")
	}
	for _, p := range all {
		under := false
		for _, f := range p.CompiledGoFiles {
			if strings.HasPrefix(f, absRoot+string(os.PathSeparator)) && !strings.HasPrefix(f, absDir+string(os.PathSeparator)) {
				under = true
			}
		}
		if !under {
			continue
		}
		rewritten[p.PkgPath] = true
	}
	for _, p := range all {
		if rewritten[p.PkgPath] {
			rewritePkg(p)
		}
	}
	var keys []string
	for k := range stats {
		keys = append(keys, k)
	}
	sort.Strings(keys)
	for _, k := range keys {
		fmt.Printf("simrewrite: %s=%d\n", k, stats[k])
	}
}

func rewritePkg(p *packages.Package) {
	stats["packages"]++
	knobSetters := ""
	for i, file := range p.Syntax {
		name := p.CompiledGoFiles[i]
		src, err := os.ReadFile(name)
		if err != nil {
			fatalf("%v", err)
		}
		fe := &fileEdits{name: name, src: src}
		tf := p.Fset.File(file.Pos())
		off := func(pos token.Pos) int { return tf.Offset(pos) }
		text := func(n ast.Node) string { return string(src[off(n.Pos()):off(n.End())]) }
		rel := func(pos token.Pos) string {
			ps := p.Fset.Position(pos)
			return fmt.Sprintf("%s/%s:%d", p.Name, filepath.Base(ps.Filename), ps.Line)
		}

		// 1. imports
		for _, im := range file.Imports {
			path := strings.Trim(im.Path.Value, "\"`")
			if path == "sync" {
				alias := "sync"
				if im.Name != nil {
					alias = im.Name.Name
				}
				fe.add(off(im.Pos()), off(im.End())-off(im.Pos()), alias+` "verifsim/simrt"`)
				stats["sync_imports"]++
			}
		}

		isPkg := func(x ast.Expr, path string) bool {
			id, ok := x.(*ast.Ident)
			if !ok {
				return false
			}
			pn, ok := p.TypesInfo.Uses[id].(*types.PkgName)
			return ok && pn.Imported().Path() == path
		}

		// traps: function declarations using unsupported constructs
		trapped := map[*ast.FuncDecl]string{}
		var curFn *ast.FuncDecl
		trap := func(pos token.Pos, why string) {
			if curFn == nil {
				fatalf("%s: %s at package level cannot be simulated", rel(pos), why)
			}
			if _, ok := trapped[curFn]; !ok {
				trapped[curFn] = rel(pos) + " " + why
			}
		}

		var nuniq int
		uniq := func(pfx string) string {
			nuniq++
			return fmt.Sprintf("__%s%d", pfx, nuniq)
		}

		for _, decl := range file.Decls {
			curFn = nil
			if fd, ok := decl.(*ast.FuncDecl); ok {
				curFn = fd
			}
			// comma-ok receives: v, ok := <-c / v, ok = <-c / var v, ok = <-c
			commaOk := map[*ast.UnaryExpr]bool{}
			labeled := map[ast.Stmt]bool{}
			ast.Inspect(decl, func(n ast.Node) bool {
				switch a := n.(type) {
				case *ast.AssignStmt:
					if len(a.Lhs) == 2 && len(a.Rhs) == 1 {
						if u, ok := ast.Unparen(a.Rhs[0]).(*ast.UnaryExpr); ok && u.Op == token.ARROW {
							commaOk[u] = true
						}
					}
				case *ast.ValueSpec:
					if len(a.Names) == 2 && len(a.Values) == 1 {
						if u, ok := ast.Unparen(a.Values[0]).(*ast.UnaryExpr); ok && u.Op == token.ARROW {
							commaOk[u] = true
						}
					}
				case *ast.LabeledStmt:
					labeled[a.Stmt] = true
				}
				return true
			})
			handledChanType := map[*ast.ChanType]bool{}
			var visit func(n ast.Node) bool
			visit = func(n ast.Node) bool {
				switch x := n.(type) {
				case *ast.GoStmt:
					fe.need = true
					stats["go_stmts"]++
					call := x.Call
					nm := rel(x.Pos())
					if fl, ok := call.Fun.(*ast.FuncLit); ok && len(call.Args) == 0 {
						fe.add(off(x.Pos()), off(fl.Pos())-off(x.Pos()), fmt.Sprintf("__simrt.Go(%q, ", nm))
						fe.add(off(fl.End()), off(x.End())-off(fl.End()), ")")
					} else if fl, ok := call.Fun.(*ast.FuncLit); ok {
						// go func(params){...}(args): the literal stays in place (constructs
						// inside it are rewritten by their own edits), the arguments are
						// evaluated first, as Go does
						var pre strings.Builder
						pre.WriteString("{ ")
						var args []string
						for _, a := range call.Args {
							av := uniq("a")
							pre.WriteString(av + " := " + text(a) + "; ")
							args = append(args, av)
						}
						ell := ""
						if call.Ellipsis.IsValid() {
							ell = "..."
						}
						pre.WriteString(fmt.Sprintf("__simrt.Go(%q, func() { ", nm))
						fe.add(off(x.Pos()), off(fl.Pos())-off(x.Pos()), pre.String())
						tailOld := string(fe.src[off(fl.End()):off(x.End())])
						fe.add(off(fl.End()), off(x.End())-off(fl.End()), fmt.Sprintf("(%s%s) }) }", strings.Join(args, ", "), ell)+strings.Repeat("\n", strings.Count(tailOld, "\n")))
					} else {
						var pre strings.Builder
						pre.WriteString("{ ")
						fv := uniq("f")
						pre.WriteString(fv + " := " + text(call.Fun) + "; ")
						var args []string
						for _, a := range call.Args {
							av := uniq("a")
							pre.WriteString(av + " := " + text(a) + "; ")
							args = append(args, av)
						}
						ell := ""
						if call.Ellipsis.IsValid() {
							ell = "..."
						}
						pre.WriteString(fmt.Sprintf("__simrt.Go(%q, func() { %s(%s%s) }) }", nm, fv, strings.Join(args, ", "), ell))
						old := text(x)
						fe.add(off(x.Pos()), off(x.End())-off(x.Pos()), pre.String()+strings.Repeat("\n", strings.Count(old, "\n")))
					}
				case *ast.RangeStmt:
					t := p.TypesInfo.TypeOf(x.X)
					if t == nil {
						return true
					}
					switch u := t.Underlying().(type) {
					case *types.Chan:
						if why := chanUnsupported(p, x.X); why != "" {
							trap(x.Pos(), "range over "+why)
							break
						}
						if !simpleExpr(x.X) || x.Tok == token.ASSIGN || x.Value != nil {
							trap(x.Pos(), "range over channel (form not supported)")
							break
						}
						fe.need = true
						stats["chan_ranges"]++
						kv := "_"
						if x.Key != nil {
							kv = text(x.Key)
						}
						okv := uniq("ok")
						C := text(x.X)
						start := off(x.For)
						end := off(x.Body.Lbrace)
						old := string(fe.src[start:end])
						fe.add(start, end-start, fmt.Sprintf("for %s, %s := (%s).Recv2(); %s; %s, %s = (%s).Recv2() ", kv, okv, C, okv, kv, okv, C)+strings.Repeat("\n", strings.Count(old, "\n")))
						// (the channel expression is simple: nothing inside it needs rewriting)
						for _, st := range x.Body.List {
							ast.Inspect(st, visit)
						}
						return false
					case *types.Map:
						rewriteMapRange(fe, p, x, u, off, text, rel, uniq)
					}
				case *ast.ChanType:
					if handledChanType[x] {
						return true
					}
					fe.need = true
					stats["chan_types"]++
					fe.add(off(x.Pos()), off(x.Value.Pos())-off(x.Pos()), "*__simrt.Chan[")
					fe.closeAt(off(x.Value.End()), "]")
				case *ast.SendStmt:
					if why := chanUnsupported(p, x.Chan); why != "" {
						trap(x.Pos(), "send on "+why)
						return false
					}
					fe.need = true
					stats["chan_sends"]++
					fe.open(off(x.Chan.Pos()), "(")
					fe.add(off(x.Chan.End()), off(x.Value.Pos())-off(x.Chan.End()), ").Send(")
					fe.closeAt(off(x.Value.End()), ")")
				case *ast.SelectStmt:
					if labeled[x] {
						trap(x.Pos(), "labeled select")
						return false
					}
					if why := rewriteSelect(fe, p, x, off, text, uniq); why != "" {
						trap(x.Pos(), why)
						return false
					}
					for _, cl := range x.Body.List {
						for _, st := range cl.(*ast.CommClause).Body {
							ast.Inspect(st, visit)
						}
					}
					return false
				case *ast.UnaryExpr:
					if x.Op == token.ARROW {
						if why := chanUnsupported(p, x.X); why != "" {
							trap(x.Pos(), "receive from "+why)
							return false
						}
						fe.need = true
						stats["chan_recvs"]++
						fe.add(off(x.Pos()), off(x.X.Pos())-off(x.Pos()), "(")
						if commaOk[x] {
							fe.closeAt(off(x.X.End()), ").Recv2()")
						} else {
							fe.closeAt(off(x.X.End()), ").Recv()")
						}
					}
				case *ast.CallExpr:
					if id, ok := x.Fun.(*ast.Ident); ok && id.Name == "make" && len(x.Args) > 0 {
						if _, isb := p.TypesInfo.Uses[id].(*types.Builtin); isb {
							if t := p.TypesInfo.TypeOf(x.Args[0]); t != nil {
								if _, ok := t.Underlying().(*types.Chan); ok {
									ct, lit := x.Args[0].(*ast.ChanType)
									if !lit || len(x.Args) > 2 {
										trap(x.Pos(), "make(chan) of a named channel type")
										return false
									}
									fe.need = true
									stats["chan_makes"]++
									handledChanType[ct] = true
									fe.add(off(x.Pos()), off(ct.Value.Pos())-off(x.Pos()), "__simrt.MakeChan[")
									if len(x.Args) == 2 {
										fe.add(off(ct.Value.End()), off(x.Args[1].Pos())-off(ct.Value.End()), "](")
									} else {
										fe.add(off(ct.Value.End()), off(x.Rparen)-off(ct.Value.End()), "](0")
									}
								}
							}
						}
					}
					if id, ok := x.Fun.(*ast.Ident); ok && (id.Name == "close" || id.Name == "len" || id.Name == "cap") && len(x.Args) == 1 {
						if _, isb := p.TypesInfo.Uses[id].(*types.Builtin); isb {
							if t := p.TypesInfo.TypeOf(x.Args[0]); t != nil {
								if _, ok := t.Underlying().(*types.Chan); ok {
									if why := chanUnsupported(p, x.Args[0]); why != "" {
										trap(x.Pos(), id.Name+" of "+why)
										return false
									}
									fe.need = true
									fe.add(off(id.Pos()), len(id.Name), map[string]string{"close": "__simrt.CloseChan", "len": "__simrt.ChanLen", "cap": "__simrt.ChanCap"}[id.Name])
								}
							}
						}
					}
				case *ast.SelectorExpr:
					if isPkg(x.X, "time") {
						switch x.Sel.Name {
						case "Now":
							fe.need = true
							fe.addTail("\nvar _ time.Duration\n")
							fe.add(off(x.Pos()), off(x.End())-off(x.Pos()), "__simrt.Now")
							stats["time_now"]++
						case "Since":
							fe.need = true
							fe.addTail("\nvar _ time.Duration\n")
							fe.add(off(x.Pos()), off(x.End())-off(x.Pos()), "__simrt.Since")
						case "Sleep":
							// a sleep is a scheduling point at which simulated time passes
							fe.need = true
							fe.addTail("\nvar _ time.Duration\n")
							fe.add(off(x.Pos()), off(x.End())-off(x.Pos()), "__simrt.Sleep")
						case "After", "AfterFunc", "NewTimer", "NewTicker", "Tick", "Until":
							trap(x.Pos(), "time."+x.Sel.Name)
						}
					}
					if isPkg(x.X, "math/rand") || isPkg(x.X, "crypto/rand") || isPkg(x.X, "math/rand/v2") {
						trap(x.Pos(), "randomness ("+x.Sel.Name+")")
					}
					if isPkg(x.X, "runtime") && x.Sel.Name == "Gosched" {
						fe.need = true
						fe.addTail("\nvar _ = runtime.NumCPU\n")
						fe.add(off(x.Pos()), off(x.End())-off(x.Pos()), "__simrt.Yield")
					}
					if isPkg(x.X, "runtime") && x.Sel.Name == "Goexit" {
						trap(x.Pos(), "runtime."+x.Sel.Name)
					}
					if isPkg(x.X, "os") && (x.Sel.Name == "Exit") {
						trap(x.Pos(), "os.Exit")
					}
				}
				return true
			}
			ast.Inspect(decl, visit)
		}
		// insert traps in deterministic order
		var tf2 []*ast.FuncDecl
		for fd := range trapped {
			tf2 = append(tf2, fd)
		}
		sort.Slice(tf2, func(i, j int) bool { return tf2[i].Pos() < tf2[j].Pos() })
		for _, fd := range tf2 {
			if fd.Body == nil {
				continue
			}
			fe.need = true
			stats["traps"]++
			fe.add(off(fd.Body.Lbrace)+1, 0, fmt.Sprintf(" __simrt.Unsupported(%q); ", trapped[fd]))
		}

		// knobs
		for _, k := range knobs {
			if p.PkgPath != k.pkg {
				continue
			}
			for _, decl := range file.Decls {
				gd, ok := decl.(*ast.GenDecl)
				if !ok || gd.Tok != token.CONST || gd.Lparen.IsValid() || len(gd.Specs) != 1 {
					continue
				}
				vs := gd.Specs[0].(*ast.ValueSpec)
				if len(vs.Names) == 1 && vs.Names[0].Name == k.name && vs.Type != nil {
					fe.add(off(gd.Pos()), len("const"), "var")
					knobSetters += fmt.Sprintf("func %s(v %s) bool { %s = v; return true }\n", k.setter, text(vs.Type), k.name)
					stats["knobs"]++
				}
			}
		}
		// injections
		for _, in := range injections {
			if p.PkgPath != in.pkg {
				continue
			}
			for _, decl := range file.Decls {
				fd, ok := decl.(*ast.FuncDecl)
				if !ok || fd.Name.Name != in.fn || fd.Body == nil {
					continue
				}
				if in.recv == "" {
					if fd.Recv != nil {
						continue
					}
				} else {
					if fd.Recv == nil {
						continue
					}
					rt := fd.Recv.List[0].Type
					if st, ok := rt.(*ast.StarExpr); ok {
						rt = st.X
					}
					if id, ok := rt.(*ast.Ident); !ok || id.Name != in.recv {
						continue
					}
				}
				code := in.code
				if strings.Contains(code, "flataddr") {
					if len(fd.Type.Params.List) != 1 || len(fd.Type.Params.List[0].Names) != 1 {
						continue
					}
					code = strings.ReplaceAll(code, "flataddr", fd.Type.Params.List[0].Names[0].Name)
				}
				fe.need = true
				fe.add(off(fd.Body.Lbrace)+1, 0, " "+code)
				stats["injections"]++
			}
		}

		if fe.need {
			fe.add(off(file.Name.End()), 0, `; import __simrt "verifsim/simrt"`)
		}
		if len(fe.edits) == 0 {
			continue
		}
		apply(fe)
		stats["files_changed"]++
	}
	// setters for knobs (always present so the harness links; report
	// availability through the return value)
	for _, k := range knobs {
		if p.PkgPath != k.pkg {
			continue
		}
		body := knobSetters
		if !strings.Contains(body, "func "+k.setter+"(") {
			body += fmt.Sprintf("func %s(v uint64) bool { return false }\n", k.setter)
		}
		dir := filepath.Dir(p.CompiledGoFiles[0])
		out := fmt.Sprintf("package %s\n\n%s", p.Name, body)
		if err := os.WriteFile(filepath.Join(dir, "zz_verif_knobs.go"), []byte(out), 0o644); err != nil {
			fatalf("%v", err)
		}
		knobSetters = ""
	}
}

// chanUnsupported says why a channel operand cannot be simulated: a channel
// of a named channel type (methods cannot be attached to the rewritten
// pointer type), or one that comes from a package that is not rewritten
// (time.After, context.Done, ...: a real Go channel). "" = supported.
func chanUnsupported(p *packages.Package, e ast.Expr) string {
	e = ast.Unparen(e)
	if t := p.TypesInfo.TypeOf(e); t != nil {
		if _, ok := types.Unalias(t).(*types.Named); ok {
			return "a named channel type"
		}
	}
	ext := ""
	ast.Inspect(e, func(n ast.Node) bool {
		var id *ast.Ident
		switch x := n.(type) {
		case *ast.SelectorExpr:
			id = x.Sel
		case *ast.Ident:
			id = x
		case *ast.FuncLit:
			return false
		}
		if id != nil {
			if o := p.TypesInfo.Uses[id]; o != nil && o.Pkg() != nil && !rewritten[o.Pkg().Path()] {
				if _, isPkgName := o.(*types.PkgName); !isPkgName {
					if ct := chanOf(o.Type()); ct {
						ext = "a channel of package " + o.Pkg().Path() + " (a real Go channel)"
					}
				}
			}
		}
		return true
	})
	return ext
}

// chanOf: the object is a channel, or a function returning one, or a struct
// field of channel type.
func chanOf(t types.Type) bool {
	switch u := t.Underlying().(type) {
	case *types.Chan:
		return true
	case *types.Signature:
		for i := 0; i < u.Results().Len(); i++ {
			if _, ok := u.Results().At(i).Type().Underlying().(*types.Chan); ok {
				return true
			}
		}
	}
	return false
}

// cleanForSelect: the expression can be copied as source text (nothing in it
// needs rewriting).
func cleanForSelect(p *packages.Package, e ast.Expr) bool {
	ok := true
	ast.Inspect(e, func(n ast.Node) bool {
		switch x := n.(type) {
		case *ast.FuncLit, *ast.ChanType:
			ok = false
		case *ast.UnaryExpr:
			if x.Op == token.ARROW {
				ok = false
			}
		case *ast.SelectorExpr:
			if id, isId := x.X.(*ast.Ident); isId {
				if pn, isPkg := p.TypesInfo.Uses[id].(*types.PkgName); isPkg {
					switch pn.Imported().Path() {
					case "time", "math/rand", "crypto/rand", "math/rand/v2", "runtime", "os":
						ok = false
					}
				}
			}
		case *ast.CallExpr:
			if id, isId := x.Fun.(*ast.Ident); isId {
				if _, isb := p.TypesInfo.Uses[id].(*types.Builtin); isb {
					switch id.Name {
					case "make", "close", "len", "cap":
						if len(x.Args) > 0 {
							if t := p.TypesInfo.TypeOf(x.Args[0]); t != nil {
								if _, isChan := t.Underlying().(*types.Chan); isChan {
									ok = false
								}
							}
						}
					}
				}
			}
		}
		return ok
	})
	return ok
}

// rewriteSelect turns a select statement into a block that evaluates the
// channel operands, calls simrt.Select and switches on the chosen case. It
// returns a reason when the statement cannot be rewritten (nothing is
// edited then).
func rewriteSelect(fe *fileEdits, p *packages.Package, x *ast.SelectStmt,
	off func(token.Pos) int, text func(ast.Node) string, uniq func(string) string) string {
	type cse struct {
		cc     *ast.CommClause
		ch     ast.Expr
		val    ast.Expr // send value
		lhs    []ast.Expr
		define bool
	}
	var cs []*cse
	hasDefault := false
	for _, cl := range x.Body.List {
		cc := cl.(*ast.CommClause)
		c := &cse{cc: cc}
		switch st := cc.Comm.(type) {
		case nil:
			hasDefault = true
		case *ast.SendStmt:
			c.ch, c.val = st.Chan, st.Value
		case *ast.ExprStmt:
			u, ok := ast.Unparen(st.X).(*ast.UnaryExpr)
			if !ok || u.Op != token.ARROW {
				return "select: unexpected communication clause"
			}
			c.ch = u.X
		case *ast.AssignStmt:
			if len(st.Rhs) != 1 {
				return "select: unexpected communication clause"
			}
			u, ok := ast.Unparen(st.Rhs[0]).(*ast.UnaryExpr)
			if !ok || u.Op != token.ARROW {
				return "select: unexpected communication clause"
			}
			c.ch, c.lhs, c.define = u.X, st.Lhs, st.Tok == token.DEFINE
		default:
			return "select: unexpected communication clause"
		}
		if c.ch != nil {
			if why := chanUnsupported(p, c.ch); why != "" {
				return "select on " + why
			}
			if !cleanForSelect(p, c.ch) || (c.val != nil && !cleanForSelect(p, c.val)) {
				return "select whose operands need rewriting themselves"
			}
			for _, l := range c.lhs {
				if !cleanForSelect(p, l) {
					return "select whose operands need rewriting themselves"
				}
			}
		}
		cs = append(cs, c)
	}
	fe.need = true
	stats["selects"]++
	var pre, args strings.Builder
	pre.WriteString("{ ")
	idx := 0
	for _, c := range cs {
		hdrStart, hdrEnd := off(c.cc.Pos()), off(c.cc.Colon)+1
		old := string(fe.src[hdrStart:hdrEnd])
		nl := strings.Repeat("\n", strings.Count(old, "\n"))
		if c.ch == nil {
			fe.add(hdrStart, hdrEnd-hdrStart, "default:"+nl)
			continue
		}
		cv := uniq("c")
		fmt.Fprintf(&pre, "%s := %s; ", cv, text(c.ch))
		post := ""
		if c.val != nil {
			fmt.Fprintf(&args, ", __simrt.SendCase(%s, %s)", cv, text(c.val))
		} else if len(c.lhs) == 0 {
			fmt.Fprintf(&args, ", __simrt.RecvCase(%s, nil, nil)", cv)
		} else {
			rv, okv := uniq("r"), uniq("ok")
			fmt.Fprintf(&pre, "%s := __simrt.Slot(%s); var %s bool; _ = %s; ", rv, cv, okv, okv)
			fmt.Fprintf(&args, ", __simrt.RecvCase(%s, %s, &%s)", cv, rv, okv)
			srcs := []string{"*" + rv, okv}
			for i, l := range c.lhs {
				name := text(l)
				if id, ok := l.(*ast.Ident); ok && id.Name == "_" {
					post += fmt.Sprintf(" _ = %s;", srcs[i])
				} else if c.define {
					post += fmt.Sprintf(" %s := %s;", name, srcs[i])
				} else {
					post += fmt.Sprintf(" %s = %s;", name, srcs[i])
				}
			}
		}
		fe.add(hdrStart, hdrEnd-hdrStart, fmt.Sprintf("case %d:%s", idx, post)+nl)
		idx++
	}
	start, end := off(x.Pos()), off(x.Body.Lbrace)+1
	old := string(fe.src[start:end])
	fe.add(start, end-start, fmt.Sprintf("%sswitch __simrt.Select(%v%s) {", pre.String(), hasDefault, args.String())+strings.Repeat("\n", strings.Count(old, "\n")))
	fe.closeAt(off(x.End()), " }")
	return ""
}

func simpleExpr(e ast.Expr) bool {
	switch x := e.(type) {
	case *ast.Ident:
		return true
	case *ast.SelectorExpr:
		return simpleExpr(x.X)
	case *ast.ParenExpr:
		return simpleExpr(x.X)
	case *ast.StarExpr:
		return simpleExpr(x.X)
	case *ast.IndexExpr:
		return simpleExpr(x.X) && simpleExpr(x.Index)
	case *ast.BasicLit:
		return true
	}
	return false
}

func rewriteMapRange(fe *fileEdits, p *packages.Package, x *ast.RangeStmt, m *types.Map,
	off func(token.Pos) int, text func(ast.Node) string, rel func(token.Pos) string, uniq func(string) string) {
	kb, ok := m.Key().Underlying().(*types.Basic)
	if !ok || kb.Info()&(types.IsOrdered) == 0 {
		fatalf("%s: range over a map whose key type %s has no total order; cannot be made deterministic", rel(x.Pos()), m.Key())
	}
	if !simpleExpr(x.X) {
		fatalf("%s: range over a map expression with possible side effects (%s); cannot be rewritten", rel(x.Pos()), text(x.X))
	}
	fe.need = true
	stats["map_ranges"]++
	M := text(x.X)
	isBlank := func(e ast.Expr) bool {
		if e == nil {
			return true
		}
		id, ok := e.(*ast.Ident)
		return ok && id.Name == "_"
	}
	kv := uniq("k")
	okv := uniq("ok")
	var body strings.Builder
	hdr := fmt.Sprintf("for _, %s := range __simrt.SortedKeys(%s) {", kv, M)
	// presence re-check keeps Go's semantics for entries deleted during the loop
	if x.Tok == token.DEFINE {
		if !isBlank(x.Value) {
			fmt.Fprintf(&body, " %s, %s := %s[%s]; if !%s { continue }; _ = %s;", text(x.Value), okv, M, kv, okv, text(x.Value))
		} else {
			fmt.Fprintf(&body, " if _, %s := %s[%s]; !%s { continue };", okv, M, kv, okv)
		}
		if !isBlank(x.Key) {
			fmt.Fprintf(&body, " %s := %s; _ = %s;", text(x.Key), kv, text(x.Key))
		}
	} else {
		tv := uniq("v")
		fmt.Fprintf(&body, " %s, %s := %s[%s]; if !%s { continue }; _ = %s;", tv, okv, M, kv, okv, tv)
		if !isBlank(x.Value) {
			fmt.Fprintf(&body, " %s = %s;", text(x.Value), tv)
		}
		if !isBlank(x.Key) {
			fmt.Fprintf(&body, " %s = %s;", text(x.Key), kv)
		}
	}
	start := off(x.For)
	end := off(x.Body.Lbrace) + 1
	old := string(fe.src[start:end])
	fe.add(start, end-start, hdr+body.String()+strings.Repeat("\n", strings.Count(old, "\n")))
}

func apply(fe *fileEdits) {
	sort.SliceStable(fe.edits, func(i, j int) bool {
		if fe.edits[i].off != fe.edits[j].off {
			return fe.edits[i].off < fe.edits[j].off
		}
		return fe.edits[i].prio < fe.edits[j].prio
	})
	var out []byte
	pos := 0
	for _, e := range fe.edits {
		if e.off < pos {
			fatalf("%s: overlapping edits at offset %d (nested constructs are not supported)", fe.name, e.off)
		}
		out = append(out, fe.src[pos:e.off]...)
		out = append(out, e.ins...)
		pos = e.off + e.del
	}
	out = append(out, fe.src[pos:]...)
	out = append(out, fe.tail...)
	if err := os.WriteFile(fe.name, out, 0o644); err != nil {
		fatalf("%v", err)
	}
}
