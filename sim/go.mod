module verifsim

go 1.22
