// Package simdisk is the simulated disk: the latest-write view the running
// system reads, the trace of writes/barriers it issued, and construction of
// the images a crash can leave behind.
package simdisk

import (
	"verifsim/simrt"
)

const BlockSize = 4096

const (
	EvWrite = iota
	EvBarrier
	EvMark
)

// Ev is one trace event.
type Ev struct {
	Kind uint8
	Blk  uint64
	Data []byte // private copy of the block written
	Hash uint64
	// marks: A = operation index, B = 0 invoke / 1 return / 2 other
	A, B int
	Step uint64 // scheduler step at which it happened
}

// Image is a disk content: nil block = all zeroes. Blocks are immutable once
// stored, so images share them freely.
type Image struct {
	Blocks [][]byte
	// per-block hashes, computed on demand and carried along by Clone (blocks are
	// immutable, so a hash stays valid until the block is replaced through set)
	bh []uint64
	bk []bool
}

func NewImage(size uint64) *Image {
	return &Image{Blocks: make([][]byte, size), bh: make([]uint64, size), bk: make([]bool, size)}
}

//go:norace
func (im *Image) Clone() *Image {
	n := &Image{Blocks: make([][]byte, len(im.Blocks)), bh: make([]uint64, len(im.Blocks)), bk: make([]bool, len(im.Blocks))}
	for i := range im.Blocks {
		n.Blocks[i] = im.Blocks[i]
	}
	if len(im.bh) == len(im.Blocks) {
		for i := range im.bh {
			n.bh[i] = im.bh[i]
			n.bk[i] = im.bk[i]
		}
	}
	return n
}

// set replaces one block; h is hashBlock(blk, data).
//
//go:norace
func (im *Image) set(blk uint64, data []byte, h uint64) {
	im.Blocks[blk] = data
	if len(im.bk) == len(im.Blocks) {
		im.bh[blk], im.bk[blk] = h, true
	}
}

//go:norace
func (im *Image) Size() uint64 { return uint64(len(im.Blocks)) }

//go:norace
func hashBlock(blk uint64, b []byte) uint64 {
	h := uint64(1469598103934665603) ^ (blk * 0x9E3779B97F4A7C15)
	allz := true
	for _, c := range b {
		if c != 0 {
			allz = false
		}
		h ^= uint64(c)
		h *= 1099511628211
	}
	if allz {
		return 0
	}
	return h
}

// Hash is an order-independent content hash (zero blocks contribute nothing).
//
//go:norace
func (im *Image) Hash() uint64 {
	var x uint64
	cache := len(im.bk) == len(im.Blocks)
	for i, b := range im.Blocks {
		if b != nil {
			if cache && im.bk[i] {
				x ^= im.bh[i]
				continue
			}
			h := hashBlock(uint64(i), b)
			if cache {
				im.bh[i], im.bk[i] = h, true
			}
			x ^= h
		}
	}
	return x
}

// Disk implements the disk.Disk interface of goose (Read, ReadTo, Write,
// Size, Barrier, Close).
type Disk struct {
	img     *Image
	Base    *Image // content when the disk was handed to the system
	Trace   []Ev
	Yield   bool // writes and barriers are scheduling points
	NoTrace bool // do not record the trace (runs that need no crash images)
	Hook    func(d *Disk, ev int, kind int)
	Writes  uint64
	Reads   uint64
	Barrs   uint64
	dead    bool
}

// New returns a zeroed disk of the given size in blocks.
func New(size uint64) *Disk {
	im := NewImage(size)
	return &Disk{img: im, Base: im.Clone(), Yield: true}
}

// FromImage returns a disk whose initial content is im (not modified).
func FromImage(im *Image) *Disk {
	return &Disk{img: im.Clone(), Base: im, Yield: true}
}

//go:norace
func (d *Disk) Size() uint64 { return uint64(len(d.img.Blocks)) }

// Current returns a snapshot of the latest-write view.
//
//go:norace
func (d *Disk) Current() *Image { return d.img.Clone() }

//go:norace
func (d *Disk) read(a uint64) []byte {
	if a >= uint64(len(d.img.Blocks)) {
		panic("simdisk: out-of-bounds read")
	}
	d.Reads++
	out := make([]byte, BlockSize)
	if b := d.img.Blocks[a]; b != nil {
		// manual loop: the copy builtin goes through runtime.slicecopy, which
		// is race-instrumented regardless of go:norace
		for i := 0; i < BlockSize; i++ {
			out[i] = b[i]
		}
	}
	return out
}

func (d *Disk) Read(a uint64) []byte { return d.read(a) }

func (d *Disk) ReadTo(a uint64, b []byte) {
	x := d.read(a)
	copy(b, x) // x is private; the write to the caller's buffer is meant to be visible
}

// touch makes the caller's buffer access visible to the race detector (a real
// disk write reads the buffer), while the disk's own state stays invisible.
func touch(v []byte) byte {
	var x byte
	for _, c := range v {
		x ^= c
	}
	return x
}

var sink byte

//go:norace
func setSink(b byte) { sink ^= b }

func (d *Disk) Write(a uint64, v []byte) {
	if len(v) != BlockSize {
		panic("simdisk: write of a buffer that is not one block")
	}
	setSink(touch(v[:1]) ^ touch(v[len(v)-1:]))
	if d.Yield {
		simrt.Yield()
	}
	d.write(a, v)
}

//go:norace
func (d *Disk) write(a uint64, v []byte) {
	if a >= uint64(len(d.img.Blocks)) {
		panic("simdisk: out-of-bounds write")
	}
	if d.Hook != nil {
		d.Hook(d, len(d.Trace), EvWrite)
	}
	if d.dead {
		return
	}
	d.Writes++
	c := make([]byte, BlockSize)
	for i := 0; i < BlockSize; i++ {
		c[i] = v[i]
	}
	h := hashBlock(a, c)
	d.img.set(a, c, h)
	if !d.NoTrace {
		d.Trace = append(d.Trace, Ev{Kind: EvWrite, Blk: a, Data: c, Hash: h, Step: simrt.Steps()})
	}
	simrt.Note(h ^ a)
}

func (d *Disk) Barrier() {
	if d.Yield {
		simrt.Yield()
	}
	d.barrier()
}

//go:norace
func (d *Disk) barrier() {
	if d.Hook != nil {
		d.Hook(d, len(d.Trace), EvBarrier)
	}
	if d.dead {
		return
	}
	d.Barrs++
	if !d.NoTrace {
		d.Trace = append(d.Trace, Ev{Kind: EvBarrier, Step: simrt.Steps()})
	}
	simrt.Note(0xBA221E2)
}

func (d *Disk) Close() {}

// Kill makes the disk ignore further writes (the incarnation using it died).
//
//go:norace
func (d *Disk) Kill() { d.dead = true }

// Mark records an operation boundary in the trace.
//
//go:norace
func (d *Disk) Mark(op int, kind int) {
	d.Trace = append(d.Trace, Ev{Kind: EvMark, A: op, B: kind, Step: simrt.Steps()})
}

// ---- crash images ----

// Cursor walks a trace and maintains the durable image and the open epoch.
type Cursor struct {
	tr      []Ev
	pos     int
	durable *Image
	open    []int // indices of the writes of the open epoch
}

func NewCursor(base *Image, tr []Ev) *Cursor {
	c := &Cursor{tr: tr, durable: base.Clone()}
	c.durable.Hash() // warm the per-block hash cache that the crash images inherit
	return c
}

// Pos is the number of events consumed.
func (c *Cursor) Pos() int { return c.pos }

// Advance consumes one event.
func (c *Cursor) Advance() {
	ev := &c.tr[c.pos]
	switch ev.Kind {
	case EvWrite:
		c.open = append(c.open, c.pos)
	case EvBarrier:
		for _, i := range c.open {
			c.durable.set(c.tr[i].Blk, c.tr[i].Data, c.tr[i].Hash)
		}
		c.open = c.open[:0]
	}
	c.pos++
}

// OpenLen is the number of un-barriered writes at the cursor.
func (c *Cursor) OpenLen() int { return len(c.open) }

// ImageAll is the image if every write issued so far persisted (crash "after
// a prefix of the block writes").
func (c *Cursor) ImageAll() *Image {
	im := c.durable.Clone()
	for _, i := range c.open {
		im.set(c.tr[i].Blk, c.tr[i].Data, c.tr[i].Hash)
	}
	return im
}

// ImageMask is the image in which the k-th un-barriered write persisted iff
// keep(k). Writes to the same block apply in issue order, so the last
// persisted one wins.
func (c *Cursor) ImageMask(keep func(k int) bool) *Image {
	im := c.durable.Clone()
	for k, i := range c.open {
		if keep(k) {
			im.set(c.tr[i].Blk, c.tr[i].Data, c.tr[i].Hash)
		}
	}
	return im
}

// OpenWrites lists (block, hash) of the open epoch, for reports.
func (c *Cursor) OpenWrites() []uint64 {
	var out []uint64
	for _, i := range c.open {
		out = append(out, c.tr[i].Blk)
	}
	return out
}
